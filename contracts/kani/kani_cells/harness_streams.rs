// C04 companion harnesses for the stream reader / writer (see harness_archive.rs).
#[cfg(kani)]
mod __verif_kani_cells {
    use super::*;
    use crate::Endian;

    fn fixed_random_state() -> std::hash::RandomState { unsafe { std::mem::zeroed() } }

    fn small_archive() -> (BinArchive, usize) {
        let endian = if kani::any() { Endian::Little } else { Endian::Big };
        let mut a = BinArchive::new(endian);
        let n: usize = kani::any();
        kani::assume(n <= 6);
        a.allocate_at_end(n);
        (a, n)
    }

    #[kani::proof]
    #[kani::unwind(8)]
    #[kani::stub(std::hash::RandomState::new, fixed_random_state)]
    fn check_reader_cursor_moves_only_on_success() {
        let (a, n) = small_archive();
        let p: usize = kani::any();
        let mut r = BinArchiveReader::new(&a, p);
        match r.read_u32() {
            Ok(_) => { assert!(p < n && 4 <= n - p, "ok_iff_in_bounds"); assert!(r.tell() == p + 4, "cursor_advance"); }
            Err(e) => { assert!(!(p < n && 4 <= n - p), "ok_iff_in_bounds"); assert!(r.tell() == p, "cursor_advance"); std::mem::forget(e); }
        }
        let q = r.tell();
        match r.read_u16() {
            Ok(_) => { assert!(q < n && 2 <= n - q, "ok_iff_in_bounds"); assert!(r.tell() == q + 2, "cursor_advance"); }
            Err(e) => { assert!(r.tell() == q, "cursor_advance"); std::mem::forget(e); }
        }
        let q = r.tell();
        match r.read_u8() {
            Ok(_) => { assert!(q < n, "ok_iff_in_bounds"); assert!(r.tell() == q + 1, "cursor_advance"); }
            Err(e) => { assert!(q >= n, "ok_iff_in_bounds"); assert!(r.tell() == q, "cursor_advance"); std::mem::forget(e); }
        }
        let q = r.tell();
        match r.read_f32() {
            Ok(_) => { assert!(r.tell() == q + 4, "cursor_advance"); }
            Err(e) => { assert!(r.tell() == q, "cursor_advance"); std::mem::forget(e); }
        }
        std::mem::forget(a);
    }

    #[kani::proof]
    #[kani::unwind(8)]
    #[kani::stub(std::hash::RandomState::new, fixed_random_state)]
    fn check_writer_cursor_moves_only_on_success() {
        let (mut a, n) = small_archive();
        let p: usize = kani::any();
        let v: u32 = kani::any();
        {
            let mut w = BinArchiveWriter::new(&mut a, p);
            match w.write_u32(v) {
                Ok(()) => { assert!(p < n && 4 <= n - p, "ok_iff_in_bounds"); assert!(w.tell() == p + 4, "cursor_advance"); }
                Err(e) => { assert!(!(p < n && 4 <= n - p), "ok_iff_in_bounds"); assert!(w.tell() == p, "cursor_advance"); std::mem::forget(e); }
            }
            let q = w.tell();
            match w.write_u16(v as u16) {
                Ok(()) => { assert!(q < n && 2 <= n - q, "ok_iff_in_bounds"); assert!(w.tell() == q + 2, "cursor_advance"); }
                Err(e) => { assert!(w.tell() == q, "cursor_advance"); std::mem::forget(e); }
            }
            let q = w.tell();
            match w.write_u8(v as u8) {
                Ok(()) => { assert!(q < n, "ok_iff_in_bounds"); assert!(w.tell() == q + 1, "cursor_advance"); }
                Err(e) => { assert!(w.tell() == q, "cursor_advance"); std::mem::forget(e); }
            }
        }
        if p < n && 4 <= n - p {
            match a.read_u32(p) { Ok(back) => assert!(back == v, "same_as_positional"), Err(e) => { std::mem::forget(e); assert!(false, "same_as_positional"); } }
        }
        std::mem::forget(a);
    }
}
