// C04 companion harnesses (bounded stand-in, independent of how the accessors are structured):
// a real BinArchive with 0..=6 data bytes of symbolic content, address and length over the whole
// usize range.  They restate the C04 clauses as assertions on the real functions, so a refactor
// that the Verus extractor cannot follow (new helper functions, moved statements) is still
// decided here, with a concrete counterexample.  Bound: archive size <= 6 bytes.
#[cfg(kani)]
mod __verif_kani_cells {
    use super::*;

    fn fixed_random_state() -> std::hash::RandomState {
        // HashMap::new() would call getrandom; the maps stay empty in these harnesses
        unsafe { std::mem::zeroed() }
    }

    fn small_archive() -> (BinArchive, [u8; 6], usize) {
        let endian = if kani::any() { Endian::Little } else { Endian::Big };
        let mut a = BinArchive::new(endian);
        let n: usize = kani::any();
        kani::assume(n <= 6);
        let content: [u8; 6] = kani::any();
        let mut i = 0;
        while i < n { a.data.push(content[i]); i += 1; }
        (a, content, n)
    }

    #[kani::proof]
    #[kani::unwind(8)]
    #[kani::stub(std::hash::RandomState::new, fixed_random_state)]
    fn check_read_bytes_all_addresses() {
        let (a, content, n) = small_archive();
        let addr: usize = kani::any();
        let amount: usize = kani::any();
        kani::assume(amount > 0);
        let in_bounds = addr < n && amount <= n - addr;
        match a.read_bytes(addr, amount) {
            Ok(s) => {
                assert!(in_bounds, "ok_iff_in_bounds");
                assert!(s.len() == amount, "value_decoded");
                let k: usize = kani::any();
                kani::assume(k < amount);
                assert!(s[k] == content[addr + k], "value_decoded");
            }
            Err(e) => {
                assert!(!in_bounds, "ok_iff_in_bounds");
                assert!(matches!(e, ArchiveError::OutOfBoundsAddress(_, _)), "err_is_oob");
                std::mem::forget(e);
            }
        }
        std::mem::forget(a);
    }

    #[kani::proof]
    #[kani::unwind(8)]
    #[kani::stub(std::hash::RandomState::new, fixed_random_state)]
    fn check_read_u32_u16_u8_all_addresses() {
        let (a, content, n) = small_archive();
        let addr: usize = kani::any();
        let big = matches!(a.endian, Endian::Big);
        match a.read_u32(addr) {
            Ok(v) => {
                assert!(addr < n && 4 <= n - addr, "ok_iff_in_bounds");
                let b = [content[addr], content[addr + 1], content[addr + 2], content[addr + 3]];
                assert!(v == if big { u32::from_be_bytes(b) } else { u32::from_le_bytes(b) }, "value_decoded");
            }
            Err(e) => { assert!(!(addr < n && 4 <= n - addr), "ok_iff_in_bounds"); assert!(matches!(e, ArchiveError::OutOfBoundsAddress(_, _)), "err_is_oob"); std::mem::forget(e); }
        }
        match a.read_u16(addr) {
            Ok(v) => {
                assert!(addr < n && 2 <= n - addr, "ok_iff_in_bounds");
                let b = [content[addr], content[addr + 1]];
                assert!(v == if big { u16::from_be_bytes(b) } else { u16::from_le_bytes(b) }, "value_decoded");
            }
            Err(e) => { assert!(!(addr < n && 2 <= n - addr), "ok_iff_in_bounds"); std::mem::forget(e); }
        }
        match a.read_u8(addr) {
            Ok(v) => { assert!(addr < n && v == content[addr], "ok_iff_in_bounds"); }
            Err(e) => { assert!(addr >= n, "ok_iff_in_bounds"); std::mem::forget(e); }
        }
        std::mem::forget(a);
    }

    #[kani::proof]
    #[kani::unwind(8)]
    #[kani::stub(std::hash::RandomState::new, fixed_random_state)]
    fn check_write_u32_local_and_read_back() {
        let (mut a, content, n) = small_archive();
        let addr: usize = kani::any();
        let v: u32 = kani::any();
        let big = matches!(a.endian, Endian::Big);
        let r = a.write_u32(addr, v);
        assert!(a.data.len() == n, "size_unchanged");
        let k: usize = kani::any();
        kani::assume(k < n);
        match r {
            Ok(()) => {
                assert!(addr < n && 4 <= n - addr, "ok_iff_in_bounds");
                let enc = if big { v.to_be_bytes() } else { v.to_le_bytes() };
                if k >= addr && k < addr + 4 { assert!(a.data[k] == enc[k - addr], "bytes_written"); }
                else { assert!(a.data[k] == content[k], "bytes_written"); }
                match a.read_u32(addr) { Ok(back) => assert!(back == v, "read_back"), Err(e) => { std::mem::forget(e); assert!(false, "read_back"); } }
            }
            Err(e) => {
                assert!(!(addr < n && 4 <= n - addr), "ok_iff_in_bounds");
                assert!(a.data[k] == content[k], "err_unchanged");
                std::mem::forget(e);
            }
        }
        std::mem::forget(a);
    }

    #[kani::proof]
    #[kani::unwind(8)]
    #[kani::stub(std::hash::RandomState::new, fixed_random_state)]
    fn check_write_bytes_all_addresses() {
        let (mut a, content, n) = small_archive();
        let addr: usize = kani::any();
        let src: [u8; 3] = kani::any();
        let m: usize = kani::any();
        kani::assume(1 <= m && m <= 3);
        let r = a.write_bytes(addr, &src[..m]);
        assert!(a.data.len() == n, "size_unchanged");
        let k: usize = kani::any();
        kani::assume(k < n);
        match r {
            Ok(()) => {
                assert!(addr < n && m <= n - addr, "ok_iff_in_bounds");
                if k >= addr && k < addr + m { assert!(a.data[k] == src[k - addr], "bytes_written"); }
                else { assert!(a.data[k] == content[k], "bytes_written"); }
            }
            Err(e) => { assert!(!(addr < n && m <= n - addr), "ok_iff_in_bounds"); assert!(a.data[k] == content[k], "err_unchanged"); std::mem::forget(e); }
        }
        std::mem::forget(a);
    }
}
