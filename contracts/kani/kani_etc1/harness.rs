// C19, ETC1 / ETC1A4: the real etc1::decode on one 8x8 tile (four 4x4 blocks) with a fully
// symbolic payload, compared pixel by pixel with a reference decoder written from the published
// ETC1 rules (individual / differential base colours, 4->8 and 5->8 bit extension, the eight
// modifier rows, flip bit, selector planes, 3-bit signed deltas) -- for every block whose
// differential base+delta stays inside 0..=31, which is what the ETC1 rules define.
// Overflow checks are on: a block on which a checked build would panic fails the harness even
// when it is outside the compared domain ("behaves identically with and without overflow checks").
#[cfg(kani)]
mod __verif_kani_etc1 {
    use super::*;

    const MODS: [[i32; 2]; 8] = [[2, 8], [5, 17], [9, 29], [13, 42], [18, 60], [24, 80], [33, 106], [47, 183]];

    fn ext4(c: u64) -> i32 { (c * 17) as i32 }
    fn ext5(c: i32) -> i32 { (c << 3) | (c >> 2) }
    fn delta3(d: u64) -> i32 { if d >= 4 { d as i32 - 8 } else { d as i32 } }
    fn clamp(v: i32) -> u8 { if v < 0 { 0 } else if v > 255 { 255 } else { v as u8 } }

    /// Some([r,g,b]) of pixel (px,py) of a block, None when a differential sum leaves 0..=31
    fn ref_pixel(block: u64, px: usize, py: usize) -> Option<[u8; 3]> {
        let diff = (block >> 33) & 1 == 1;
        let flip = (block >> 32) & 1 == 1;
        let second = if flip { py >= 2 } else { px >= 2 };
        let table = if second { (block >> 34) & 7 } else { (block >> 37) & 7 } as usize;
        let base: [i32; 3] = if !diff {
            if second { [ext4((block >> 56) & 0xF), ext4((block >> 48) & 0xF), ext4((block >> 40) & 0xF)] }
            else { [ext4((block >> 60) & 0xF), ext4((block >> 52) & 0xF), ext4((block >> 44) & 0xF)] }
        } else {
            let r = ((block >> 59) & 0x1F) as i32; let g = ((block >> 51) & 0x1F) as i32; let b = ((block >> 43) & 0x1F) as i32;
            if second {
                let (r2, g2, b2) = (r + delta3((block >> 56) & 7), g + delta3((block >> 48) & 7), b + delta3((block >> 40) & 7));
                if r2 < 0 || r2 > 31 || g2 < 0 || g2 > 31 || b2 < 0 || b2 > 31 { return None; }
                [ext5(r2), ext5(g2), ext5(b2)]
            } else { [ext5(r), ext5(g), ext5(b)] }
        };
        let k = px * 4 + py;
        let lsb = ((block >> k) & 1) as usize;
        let msb = (block >> (16 + k)) & 1;
        let m = if msb == 1 { -MODS[table][lsb] } else { MODS[table][lsb] };
        Some([clamp(base[0] + m), clamp(base[1] + m), clamp(base[2] + m)])
    }

    fn le64(b: &[u8]) -> u64 { let mut v = 0u64; let mut i = 0; while i < 8 { v |= (b[i] as u64) << (8 * i); i += 1; } v }

    #[kani::proof]
    #[kani::unwind(260)]
    #[kani::solver(kissat)]
    fn check_etc1_tile_8x8() {
        // bound: one fully symbolic block at any of the four block positions, the other three zero
        let blk: [u8; 8] = kani::any();
        let at: usize = kani::any();
        kani::assume(at < 4);
        let mut data = [0u8; 32];
        let mut i = 0;
        while i < 8 { data[at * 8 + i] = blk[i]; i += 1; }
        let r = decode(&data, 8, 8, false);
        match r {
            Ok(bmp) => {
                assert!(bmp.len() == 8 * 8 * 4, "output_is_width_x_height_rgba");
                let x: usize = kani::any(); let y: usize = kani::any();
                kani::assume(x < 8 && y < 8);
                // block order inside the tile: (0,0) (1,0) / (0,1) (1,1) in x-major-within-row order
                let bi = (y / 4) * 2 + (x / 4);
                kani::assume(bi == at);
                let block = le64(&data[bi * 8..bi * 8 + 8]);
                if let Some(c) = ref_pixel(block, x % 4, y % 4) {
                    let p = (y * 8 + x) * 4;
                    assert!(bmp[p] == c[0] && bmp[p + 1] == c[1] && bmp[p + 2] == c[2], "rgb_follows_etc1_rules");
                    assert!(bmp[p + 3] == 255, "opaque_without_alpha_plane");
                    kani::cover!(true);
                }
            }
            Err(e) => { std::mem::forget(e); assert!(false, "exact_size_payload_is_accepted"); }
        }
    }

    #[kani::proof]
    #[kani::unwind(260)]
    #[kani::solver(kissat)]
    fn check_etc1a4_tile_8x8() {
        let blk: [u8; 16] = kani::any();
        let at: usize = kani::any();
        kani::assume(at < 4);
        let mut data = [0u8; 64];
        let mut i = 0;
        while i < 16 { data[at * 16 + i] = blk[i]; i += 1; }
        let r = decode(&data, 8, 8, true);
        match r {
            Ok(bmp) => {
                assert!(bmp.len() == 8 * 8 * 4, "output_is_width_x_height_rgba");
                let x: usize = kani::any(); let y: usize = kani::any();
                kani::assume(x < 8 && y < 8);
                let bi = (y / 4) * 2 + (x / 4);
                kani::assume(bi == at);
                let alphas = le64(&data[bi * 16..bi * 16 + 8]);
                let block = le64(&data[bi * 16 + 8..bi * 16 + 16]);
                let k = (x % 4) * 4 + (y % 4);
                let p = (y * 8 + x) * 4;
                assert!(bmp[p + 3] == (((alphas >> (4 * k)) & 0xF) * 17) as u8, "alpha_4bit_expanded");
                if let Some(c) = ref_pixel(block, x % 4, y % 4) {
                    assert!(bmp[p] == c[0] && bmp[p + 1] == c[1] && bmp[p + 2] == c[2], "rgb_follows_etc1_rules");
                    kani::cover!(true);
                }
            }
            Err(e) => { std::mem::forget(e); assert!(false, "exact_size_payload_is_accepted"); }
        }
    }

    #[kani::proof]
    #[kani::unwind(260)]
    fn smoke_etc1_concrete() {
        let data = [0u8; 32];
        let r = decode(&data, 8, 8, false);
        match r { Ok(bmp) => assert!(bmp.len() == 256, "len"), Err(e) => { std::mem::forget(e); assert!(false, "ok"); } }
    }
}
