#[cfg(kani)]
mod __verif_kani_pixels {
    use super::*;
    fn within_one_step(got: u8, src: u32, bits: u32) -> bool {
        let m = (1u32 << bits) - 1;
        let scaled_got = got as u32 * m;
        let scaled_lin = src * 255;
        let diff = if scaled_got > scaled_lin { scaled_got - scaled_lin } else { scaled_lin - scaled_got };
        diff <= 255
    }
    // GameCube/Wii RGB5A3: bit 15 set => opaque RGB555, clear => A3 RGB444
    #[kani::proof]
    fn check_decode_rgb5a3_pixel() {
        let v: u16 = kani::any();
        let c = decode_rgb5a3_pixel(v);
        assert!(c.len() == 4, "four_channels");
        let w = v as u32;
        if v & 0x8000 != 0 {
            assert!(within_one_step(c[0], (w >> 10) & 0x1F, 5) && within_one_step(c[1], (w >> 5) & 0x1F, 5)
                && within_one_step(c[2], w & 0x1F, 5), "rgb555_within_one_step");
            assert!(c[3] == 255, "opaque_when_top_bit_set");
        } else {
            assert!(within_one_step(c[0], (w >> 8) & 0xF, 4) && within_one_step(c[1], (w >> 4) & 0xF, 4)
                && within_one_step(c[2], w & 0xF, 4), "rgb444_within_one_step");
            assert!(within_one_step(c[3], (w >> 12) & 0x7, 3), "alpha_3bit_within_one_step");
        }
    }
    #[kani::proof]
    fn check_color_format_tables() {
        assert!(ColorFormat::RGBA8.bytes_per_pixel() == 4 && ColorFormat::RGB5A3.bytes_per_pixel() == 2 && ColorFormat::CI8.bytes_per_pixel() == 1, "bytes_per_pixel");
        assert!(ColorFormat::CI8.is_indexed_format() && !ColorFormat::RGBA8.is_indexed_format() && !ColorFormat::RGB5A3.is_indexed_format(), "indexed_formats");
    }
}
