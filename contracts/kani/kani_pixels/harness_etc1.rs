#[cfg(kani)]
mod __verif_kani_pixels {
    use super::*;
    // 3-bit two's-complement delta, returned modulo 256
    #[kani::proof]
    fn check_complement_3bit() {
        let x: u8 = kani::any();
        kani::assume(x < 8);
        let c = complement(x, 3);
        let expect: i32 = if x >= 4 { x as i32 - 8 } else { x as i32 };
        assert!(c as i8 as i32 == expect, "three_bit_sign_extension");
    }
}
