// C19 per-pixel clauses on the real texture_decoder functions: loop-free harnesses over the full
// value domain (complete, bit-precise; Kani's arithmetic-overflow checks are on, so a value that
// would behave differently in a wrapping build fails here).
#[cfg(kani)]
mod __verif_kani_pixels {
    use super::*;

    /// |got - linear expansion of `src` (bits wide)| <= one quantisation step, in integers:
    /// linear = src * 255 / (2^bits - 1), step = 255 / (2^bits - 1)   (compared scaled by 2^bits - 1)
    fn within_one_step(got: u8, src: u32, bits: u32) -> bool {
        let m = (1u32 << bits) - 1;
        let scaled_got = got as u32 * m;
        let scaled_lin = src * 255;
        let diff = if scaled_got > scaled_lin { scaled_got - scaled_lin } else { scaled_lin - scaled_got };
        diff <= 255
    }

    #[kani::proof]
    fn check_decode_color_rgba8() {
        let v: u32 = kani::any();
        let c = decode_color(v, 0);
        assert!(c.len() == 4, "four_channels");
        assert!(c[0] == (v >> 24) as u8 && c[1] == (v >> 16) as u8 && c[2] == (v >> 8) as u8 && c[3] == v as u8, "rgba8_channel_order_exact");
    }
    #[kani::proof]
    fn check_decode_color_rgba5551() {
        let v: u32 = kani::any();
        let c = decode_color(v, 2);
        assert!(c.len() == 4, "four_channels");
        assert!(within_one_step(c[0], (v >> 11) & 0x1F, 5), "red_5bit_within_one_step");
        assert!(within_one_step(c[1], (v >> 6) & 0x1F, 5), "green_5bit_within_one_step");
        assert!(within_one_step(c[2], (v >> 1) & 0x1F, 5), "blue_5bit_within_one_step");
        assert!(c[3] == if v & 1 == 1 { 255 } else { 0 }, "one_bit_alpha_exact");
    }
    #[kani::proof]
    fn check_decode_color_rgb565() {
        let v: u32 = kani::any();
        let c = decode_color(v, 3);
        assert!(c.len() == 4, "four_channels");
        assert!(within_one_step(c[0], (v >> 11) & 0x1F, 5), "red_5bit_within_one_step");
        assert!(within_one_step(c[1], (v >> 5) & 0x3F, 6), "green_6bit_within_one_step");
        assert!(within_one_step(c[2], v & 0x1F, 5), "blue_5bit_within_one_step");
        assert!(c[3] == 255, "opaque");
    }
    #[kani::proof]
    fn check_decode_color_rgba4() {
        let v: u32 = kani::any();
        let c = decode_color(v, 4);
        assert!(c.len() == 4, "four_channels");
        assert!(within_one_step(c[0], (v >> 12) & 0xF, 4) && within_one_step(c[1], (v >> 8) & 0xF, 4)
            && within_one_step(c[2], (v >> 4) & 0xF, 4) && within_one_step(c[3], v & 0xF, 4), "four_bit_channels_within_one_step");
    }
    #[kani::proof]
    fn check_decode_color_la8() {
        let v: u32 = kani::any();
        let c = decode_color(v, 5);
        assert!(c.len() == 4, "four_channels");
        assert!(c[0] == (v >> 8) as u8 && c[1] == c[0] && c[2] == c[0] && c[3] == v as u8, "luminance_replicated_alpha_exact");
    }
    #[kani::proof]
    fn check_decode_color_l8() {
        let v: u32 = kani::any();
        let c = decode_color(v, 7);
        assert!(c.len() == 4, "four_channels");
        assert!(c[0] == v as u8 && c[1] == c[0] && c[2] == c[0] && c[3] == 255, "luminance_replicated_opaque");
    }
    #[kani::proof]
    fn check_decode_color_a8() {
        let v: u32 = kani::any();
        let c = decode_color(v, 8);
        assert!(c.len() == 4, "four_channels");
        assert!(c[3] == v as u8, "alpha_exact");
    }
    #[kani::proof]
    fn check_tile_order_is_z_order() {
        let i: usize = kani::any();
        kani::assume(i < 64);
        // Z-order (Morton) inside the 8x8 tile: x takes bits 0,2,4 of the index, y bits 1,3,5
        let x = (i & 1) | ((i >> 1) & 2) | ((i >> 2) & 4);
        let y = ((i >> 1) & 1) | ((i >> 2) & 2) | ((i >> 3) & 4);
        assert!(TILE_ORDER.len() == 64, "tile_has_64_entries");
        assert!(TILE_ORDER[i] as usize == y * 8 + x, "tile_order_is_morton");
    }
    #[kani::proof]
    fn check_pixel_format_bpp() {
        let f: u32 = kani::any();
        let b = get_pixel_format_bpp(f);
        let expect = match f { 0 => 4.0, 2 | 3 | 4 | 5 => 2.0, 7 | 8 | 13 => 1.0, 12 => 0.5, _ => b };
        assert!(b == expect, "bytes_per_pixel_of_listed_formats");
    }
}
