// C03 bounded harnesses on the REAL BinArchive::{allocate, deallocate, truncate} (whole functions,
// including Vec::splice / drain / step_by and the five map helpers), with HashMap replaced by the
// association-list stand-in (contracts/kani/kani_alloc/verif_hashmap.rs, ASSUMED).
// Bound: one 16-byte archive with symbolic content carrying two strings, one pointer, one label and
// one pending c-string at symbolic cells (pointer target symbolic); request address over all of
// usize, amount over 0..=8, inclusive flag symbolic.  The expected state is the C03 statement:
// cells at or after `a` move by n, targets/labels after `a` (or at `a` when inclusive) move by n;
// removal deletes what lies inside the range and the pointers into it and shifts the rest back;
// rejected requests change nothing.
#[cfg(kani)]
mod __verif_kani_alloc {
    use super::*;

    const SIZE: usize = 16;

    fn cell(limit_inclusive: bool) -> usize {
        let k: usize = kani::any();
        kani::assume(if limit_inclusive { k <= SIZE / 4 } else { k < SIZE / 4 });
        k * 4
    }
    fn shift_cell(k: usize, a: usize, n: usize) -> usize { if k >= a { k + n } else { k } }
    fn shift_target(t: usize, a: usize, n: usize, ge: bool) -> usize { if t > a || (ge && t >= a) { t + n } else { t } }
    fn unshift_cell(k: usize, a: usize, n: usize) -> usize { if k >= a { k - n } else { k } }
    fn unshift_target(t: usize, a: usize, n: usize, ge: bool) -> usize { if t > a || (ge && t >= a) { t - n } else { t } }
    fn in_range(k: usize, a: usize, n: usize) -> bool { a <= k && k - a < n }

    // never drop a crate error value in a harness: its drop glue (io::Error -> Box<dyn Error>) explodes in CBMC
    fn ok(r: Result<()>) -> bool { match r { Ok(()) => true, Err(e) => { std::mem::forget(e); false } } }

    struct World { a: BinArchive, content: [u8; SIZE], t1: usize, t2: usize, ps: usize, pd: usize, l1: usize, c1: usize }

    fn world() -> World {
        let endian = if kani::any() { Endian::Little } else { Endian::Big };
        let mut a = BinArchive::new(endian);
        let content: [u8; SIZE] = kani::any();
        let mut i = 0;
        while i < SIZE { a.data.push(content[i]); i += 1; }
        let (t1, t2, ps, l1, c1) = (cell(false), cell(false), cell(false), cell(true), cell(false));
        kani::assume(t1 != t2);
        let pd: usize = kani::any();
        kani::assume(pd <= SIZE + 4);
        // entries go in through the public accessors (all five succeed for these cells)
        let done = ok(a.write_string(t1, Some("a"))) && ok(a.write_string(t2, Some("b")))
            && ok(a.write_pointer(ps, Some(pd))) && ok(a.write_label(l1, "L"))
            && ok(a.write_c_string(c1, "c".to_string()));
        assert!(done, "setup");
        World { a, content, t1, t2, ps, pd, l1, c1 }
    }

    fn text_is(a: &BinArchive, k: usize, s: &str) -> bool { match a.text.get(&k) { Some(v) => v == s, None => false } }
    fn label_is(a: &BinArchive, k: usize, s: &str) -> bool {
        match a.labels.get(&k) { Some(v) => v.len() == 1 && v[0] == s, None => false }
    }
    fn cstring_cells(a: &BinArchive) -> Option<&Vec<usize>> { a.cstrings.get("c") }

    fn unchanged(w: &World) -> bool {
        let a = &w.a;
        let mut same = a.data.len() == SIZE;
        let i: usize = kani::any();
        kani::assume(i < SIZE);
        same = same && a.data[i] == w.content[i];
        same && a.text.len() == 2 && text_is(a, w.t1, "a") && text_is(a, w.t2, "b")
            && a.pointers.len() == 1 && a.pointers.get(&w.ps) == Some(&w.pd)
            && a.labels.len() == 1 && label_is(a, w.l1, "L")
            && a.cstrings.len() == 1 && match cstring_cells(a) { Some(v) => v.len() == 1 && v[0] == w.c1, None => false }
    }

    #[kani::proof]
    #[kani::unwind(20)]
    fn check_allocate_relocates_every_annotation() {
        let mut w = world();
        let addr: usize = kani::any();
        let n: usize = kani::any();
        kani::assume(n <= 8);
        let ge: bool = kani::any();
        let r = w.a.allocate(addr, n, ge);
        let accepted = addr <= SIZE && addr % 4 == 0 && n % 4 == 0;
        match r {
            Ok(()) => {
                assert!(accepted, "rejects_misaligned_or_out_of_range");
                let a = &w.a;
                assert!(a.data.len() == SIZE + n, "data_shifted");
                let i: usize = kani::any();
                kani::assume(i < SIZE + n);
                let expect = if i < addr { w.content[i] } else if i < addr + n { 0 } else { w.content[i - n] };
                assert!(a.data[i] == expect, "data_shifted");
                assert!(a.text.len() == 2 && text_is(a, shift_cell(w.t1, addr, n), "a") && text_is(a, shift_cell(w.t2, addr, n), "b"), "strings_moved_with_their_cells");
                assert!(a.pointers.len() == 1 && a.pointers.get(&shift_cell(w.ps, addr, n)) == Some(&shift_target(w.pd, addr, n, ge)), "pointer_cell_and_target_moved");
                assert!(a.labels.len() == 1 && label_is(a, shift_target(w.l1, addr, n, ge), "L"), "label_moved");
                assert!(a.cstrings.len() == 1 && match cstring_cells(a) { Some(v) => v.len() == 1 && v[0] == shift_cell(w.c1, addr, n), None => false }, "pending_cstring_moved");
            }
            Err(e) => {
                assert!(!accepted, "appending_and_aligned_requests_are_accepted");
                assert!(unchanged(&w), "rejected_request_changes_nothing");
                std::mem::forget(e);
            }
        }
        kani::cover!(accepted && n == 4, "an accepted request is reachable");
        std::mem::forget(w);
    }

    #[kani::proof]
    #[kani::unwind(20)]
    fn check_deallocate_removes_range_and_shifts_back() {
        let mut w = world();
        let addr: usize = kani::any();
        let n: usize = kani::any();
        kani::assume(n <= 8 || n >= usize::MAX - 8);
        let ge: bool = kani::any();
        let r = w.a.deallocate(addr, n, ge);
        let accepted = addr < SIZE && n <= SIZE - addr && addr % 4 == 0 && n % 4 == 0;
        match r {
            Ok(()) => {
                assert!(accepted, "rejects_misaligned_or_out_of_range");
                let a = &w.a;
                assert!(a.data.len() == SIZE - n, "data_removed");
                let i: usize = kani::any();
                kani::assume(i < SIZE - n);
                assert!(a.data[i] == if i < addr { w.content[i] } else { w.content[i + n] }, "data_removed");
                let keep1 = !in_range(w.t1, addr, n);
                let keep2 = !in_range(w.t2, addr, n);
                assert!(a.text.len() == (keep1 as usize) + (keep2 as usize), "strings_inside_deleted_only");
                assert!(!keep1 || text_is(a, unshift_cell(w.t1, addr, n), "a"), "strings_shifted_back");
                assert!(!keep2 || text_is(a, unshift_cell(w.t2, addr, n), "b"), "strings_shifted_back");
                let keep_p = !in_range(w.ps, addr, n) && !in_range(w.pd, addr, n);
                assert!(a.pointers.len() == keep_p as usize, "pointers_in_or_into_range_deleted");
                assert!(!keep_p || a.pointers.get(&unshift_cell(w.ps, addr, n)) == Some(&unshift_target(w.pd, addr, n, ge)), "pointer_shifted_back");
                let keep_l = !in_range(w.l1, addr, n);
                assert!(a.labels.len() == keep_l as usize, "labels_inside_deleted_only");
                assert!(!keep_l || label_is(a, unshift_target(w.l1, addr, n, ge), "L"), "label_shifted_back");
                let keep_c = !in_range(w.c1, addr, n);
                assert!(a.cstrings.len() == keep_c as usize, "pending_cstring_inside_deleted_only");
                assert!(!keep_c || match cstring_cells(a) { Some(v) => v.len() == 1 && v[0] == unshift_cell(w.c1, addr, n), None => false }, "pending_cstring_shifted_back");
            }
            Err(e) => {
                assert!(!accepted, "in_range_aligned_requests_are_accepted");
                assert!(unchanged(&w), "rejected_request_changes_nothing");
                std::mem::forget(e);
            }
        }
        kani::cover!(accepted && n == 4, "an accepted request is reachable");
        std::mem::forget(w);
    }

    #[kani::proof]
    #[kani::unwind(20)]
    fn check_truncate_removes_everything_beyond_the_cut() {
        let mut w = world();
        let k: usize = kani::any();
        kani::assume(k <= SIZE / 4 + 1);
        let cut = k * 4;        // "truncating at a cell boundary"
        let r = ok(w.a.truncate(cut));
        assert!(r, "truncate_is_total");
        if cut >= SIZE {
            assert!(unchanged(&w), "cut_at_or_after_the_end_changes_nothing");
        } else {
            let a = &w.a;
            assert!(a.data.len() == cut, "bytes_beyond_cut_removed");
            let i: usize = kani::any();
            kani::assume(i < cut);
            assert!(a.data[i] == w.content[i], "bytes_before_cut_kept");
            let (k1, k2) = (w.t1 < cut, w.t2 < cut);
            assert!(a.text.len() == (k1 as usize) + (k2 as usize) && (!k1 || text_is(a, w.t1, "a")) && (!k2 || text_is(a, w.t2, "b")), "strings_beyond_cut_removed_others_kept");
            let kp = w.ps < cut;
            assert!(a.pointers.len() == kp as usize && (!kp || a.pointers.get(&w.ps) == Some(&w.pd)), "pointers_beyond_cut_removed_others_kept");
            let kl = w.l1 < cut;
            assert!(a.labels.len() == kl as usize && (!kl || label_is(a, w.l1, "L")), "labels_beyond_cut_removed_others_kept");
            let kc = w.c1 < cut;
            assert!(a.cstrings.len() == kc as usize && (!kc || match cstring_cells(a) { Some(v) => v.len() == 1 && v[0] == w.c1, None => false }), "pending_cstrings_beyond_cut_removed_others_kept");
        }
        kani::cover!(cut == 8, "a real cut is reachable");
        std::mem::forget(w);
    }
}
