// Stand-in for std::collections::HashMap used ONLY inside Kani scratch copies (ASSUMED contract on
// std): an association list with the HashMap API surface bin_archive.rs uses.  CBMC cannot execute
// the real HashMap (SipHash + hashbrown: one insert takes minutes), so in the scratch copy the line
// `use std::collections::{HashMap, HashSet};` of src/bin_archive.rs is redirected to this type.
// Semantics kept: keys are unique; insert replaces the value of an existing key; iteration visits
// every entry exactly once.  Iteration ORDER is insertion order here (std: unspecified) -- a harness
// that must cover other orders inserts its entries in a symbolic order.
#![allow(dead_code)]
use std::borrow::Borrow;
use std::iter::FromIterator;

#[derive(Debug, Clone, Default)]
pub struct HashMap<K, V> {
    items: Vec<(K, V)>,
}

pub struct OccupiedOrVacant<'a, K, V> {
    map: &'a mut HashMap<K, V>,
    key: K,
}

impl<'a, K: Eq, V: Default> OccupiedOrVacant<'a, K, V> {
    pub fn or_default(self) -> &'a mut V {
        let mut i = 0;
        let mut found = None;
        while i < self.map.items.len() {
            if self.map.items[i].0 == self.key {
                found = Some(i);
                break;
            }
            i += 1;
        }
        let at = match found {
            Some(i) => i,
            None => {
                self.map.items.push((self.key, V::default()));
                self.map.items.len() - 1
            }
        };
        &mut self.map.items[at].1
    }
}

impl<K: Eq, V> HashMap<K, V> {
    pub fn new() -> Self {
        HashMap { items: Vec::new() }
    }
    pub fn len(&self) -> usize {
        self.items.len()
    }
    pub fn is_empty(&self) -> bool {
        self.items.is_empty()
    }
    fn position<Q: ?Sized + Eq>(&self, k: &Q) -> Option<usize>
    where
        K: Borrow<Q>,
    {
        let mut i = 0;
        while i < self.items.len() {
            if self.items[i].0.borrow() == k {
                return Some(i);
            }
            i += 1;
        }
        None
    }
    pub fn insert(&mut self, k: K, v: V) -> Option<V> {
        match self.position(&k) {
            Some(i) => Some(std::mem::replace(&mut self.items[i].1, v)),
            None => {
                self.items.push((k, v));
                None
            }
        }
    }
    pub fn get<Q: ?Sized + Eq>(&self, k: &Q) -> Option<&V>
    where
        K: Borrow<Q>,
    {
        match self.position(k) {
            Some(i) => Some(&self.items[i].1),
            None => None,
        }
    }
    pub fn get_mut<Q: ?Sized + Eq>(&mut self, k: &Q) -> Option<&mut V>
    where
        K: Borrow<Q>,
    {
        match self.position(k) {
            Some(i) => Some(&mut self.items[i].1),
            None => None,
        }
    }
    pub fn contains_key<Q: ?Sized + Eq>(&self, k: &Q) -> bool
    where
        K: Borrow<Q>,
    {
        self.position(k).is_some()
    }
    pub fn remove<Q: ?Sized + Eq>(&mut self, k: &Q) -> Option<V>
    where
        K: Borrow<Q>,
    {
        match self.position(k) {
            Some(i) => Some(self.items.remove(i).1),
            None => None,
        }
    }
    pub fn entry(&mut self, key: K) -> OccupiedOrVacant<'_, K, V> {
        OccupiedOrVacant { map: self, key }
    }
    pub fn iter(&self) -> impl Iterator<Item = (&K, &V)> {
        self.items.iter().map(|kv| (&kv.0, &kv.1))
    }
    pub fn keys(&self) -> impl Iterator<Item = &K> {
        self.items.iter().map(|kv| &kv.0)
    }
    pub fn values(&self) -> impl Iterator<Item = &V> {
        self.items.iter().map(|kv| &kv.1)
    }
    pub fn values_mut(&mut self) -> impl Iterator<Item = &mut V> {
        self.items.iter_mut().map(|kv| &mut kv.1)
    }
    pub fn retain<F: FnMut(&K, &mut V) -> bool>(&mut self, mut f: F) {
        self.items.retain_mut(|kv| f(&kv.0, &mut kv.1));
    }
}

impl<K: Eq, V> FromIterator<(K, V)> for HashMap<K, V> {
    fn from_iter<I: IntoIterator<Item = (K, V)>>(iter: I) -> Self {
        let mut m = HashMap::new();
        for (k, v) in iter {
            m.insert(k, v);
        }
        m
    }
}

impl<K, V> IntoIterator for HashMap<K, V> {
    type Item = (K, V);
    type IntoIter = std::vec::IntoIter<(K, V)>;
    fn into_iter(self) -> Self::IntoIter {
        self.items.into_iter()
    }
}

impl<'a, K, V> IntoIterator for &'a HashMap<K, V> {
    type Item = (&'a K, &'a V);
    type IntoIter = std::iter::Map<std::slice::Iter<'a, (K, V)>, fn(&'a (K, V)) -> (&'a K, &'a V)>;
    fn into_iter(self) -> Self::IntoIter {
        fn split<'b, K, V>(kv: &'b (K, V)) -> (&'b K, &'b V) {
            (&kv.0, &kv.1)
        }
        self.items.iter().map(split as fn(&'a (K, V)) -> (&'a K, &'a V))
    }
}
