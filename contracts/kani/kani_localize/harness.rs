// C14 harnesses: one per localizer x path; the language ranges over all 8 variants (symbolic).
#[cfg(kani)]
mod __verif_kani_localize {
    use super::*;
    use crate::Language;
    fn any_language() -> Language { match kani::any::<u8>() % 8 { 0 => Language::EnglishNA, 1 => Language::EnglishEU, 2 => Language::Japanese, 3 => Language::Spanish, 4 => Language::French, 5 => Language::Italian, 6 => Language::German, _ => Language::Dutch } }
    #[kani::proof]
    #[kani::unwind(30)]
    fn check_fe9_m_gamedata_bin_lz() {
        let lang = any_language();
        let loc = PathLocalizer::FE9(FE9PathLocalizer {});
        let expected: Option<&str> = match lang {
                Language::EnglishNA => Some("m/GameData.bin.lz"),
                Language::EnglishEU => Some("m/GameData.bin.lz"),
                Language::Japanese => Some("m/GameData.bin.lz"),
                Language::Spanish => Some("m/s_GameData.bin.lz"),
                Language::French => Some("m/f_GameData.bin.lz"),
                Language::Italian => Some("m/i_GameData.bin.lz"),
                Language::German => Some("m/d_GameData.bin.lz"),
                Language::Dutch => None,
        };
        match loc.localize("m/GameData.bin.lz", &lang) {
            Ok(s) => { assert!(expected.is_some(), "unsupported_pair_is_error"); assert!(s == expected.unwrap(), "parent_marker_file"); kani::cover!(true); }
            Err(e) => { assert!(expected.is_none() && matches!(e, LocalizationError::UnsupportedLanguage), "error_only_for_unsupported_pair"); std::mem::forget(e); }
        }
    }
    #[kani::proof]
    #[kani::unwind(15)]
    fn check_fe9_m_() {
        let lang = any_language();
        let loc = PathLocalizer::FE9(FE9PathLocalizer {});
        let expected: Option<&str> = match lang {
                Language::EnglishNA => Some("m/"),
                Language::EnglishEU => Some("m/"),
                Language::Japanese => Some("m/"),
                Language::Spanish => Some("m/s_"),
                Language::French => Some("m/f_"),
                Language::Italian => Some("m/i_"),
                Language::German => Some("m/d_"),
                Language::Dutch => None,
        };
        match loc.localize("m/", &lang) {
            Ok(s) => { assert!(expected.is_some(), "unsupported_pair_is_error"); assert!(s == expected.unwrap(), "parent_marker_file"); kani::cover!(true); }
            Err(e) => { assert!(expected.is_none() && matches!(e, LocalizationError::UnsupportedLanguage), "error_only_for_unsupported_pair"); std::mem::forget(e); }
        }
    }
    #[kani::proof]
    #[kani::unwind(24)]
    fn check_fe9_a_b_c_bin() {
        let lang = any_language();
        let loc = PathLocalizer::FE9(FE9PathLocalizer {});
        let expected: Option<&str> = match lang {
                Language::EnglishNA => Some("a/b/c.bin"),
                Language::EnglishEU => Some("a/b/c.bin"),
                Language::Japanese => Some("a/b/c.bin"),
                Language::Spanish => Some("a/b/s_c.bin"),
                Language::French => Some("a/b/f_c.bin"),
                Language::Italian => Some("a/b/i_c.bin"),
                Language::German => Some("a/b/d_c.bin"),
                Language::Dutch => None,
        };
        match loc.localize("a/b/c.bin", &lang) {
            Ok(s) => { assert!(expected.is_some(), "unsupported_pair_is_error"); assert!(s == expected.unwrap(), "parent_marker_file"); kani::cover!(true); }
            Err(e) => { assert!(expected.is_none() && matches!(e, LocalizationError::UnsupportedLanguage), "error_only_for_unsupported_pair"); std::mem::forget(e); }
        }
    }
    #[kani::proof]
    #[kani::unwind(32)]
    fn check_fe9_a_b_c_d_e_txt() {
        let lang = any_language();
        let loc = PathLocalizer::FE9(FE9PathLocalizer {});
        let expected: Option<&str> = match lang {
                Language::EnglishNA => Some("a/b/c/d/e.txt"),
                Language::EnglishEU => Some("a/b/c/d/e.txt"),
                Language::Japanese => Some("a/b/c/d/e.txt"),
                Language::Spanish => Some("a/b/c/d/s_e.txt"),
                Language::French => Some("a/b/c/d/f_e.txt"),
                Language::Italian => Some("a/b/c/d/i_e.txt"),
                Language::German => Some("a/b/c/d/d_e.txt"),
                Language::Dutch => None,
        };
        match loc.localize("a/b/c/d/e.txt", &lang) {
            Ok(s) => { assert!(expected.is_some(), "unsupported_pair_is_error"); assert!(s == expected.unwrap(), "parent_marker_file"); kani::cover!(true); }
            Err(e) => { assert!(expected.is_none() && matches!(e, LocalizationError::UnsupportedLanguage), "error_only_for_unsupported_pair"); std::mem::forget(e); }
        }
    }
    #[kani::proof]
    #[kani::unwind(33)]
    fn check_fe9_data_x_y_1_bin_lz() {
        let lang = any_language();
        let loc = PathLocalizer::FE9(FE9PathLocalizer {});
        let expected: Option<&str> = match lang {
                Language::EnglishNA => Some("data/x y@1.bin.lz"),
                Language::EnglishEU => Some("data/x y@1.bin.lz"),
                Language::Japanese => Some("data/x y@1.bin.lz"),
                Language::Spanish => Some("data/s_x y@1.bin.lz"),
                Language::French => Some("data/f_x y@1.bin.lz"),
                Language::Italian => Some("data/i_x y@1.bin.lz"),
                Language::German => Some("data/d_x y@1.bin.lz"),
                Language::Dutch => None,
        };
        match loc.localize("data/x y@1.bin.lz", &lang) {
            Ok(s) => { assert!(expected.is_some(), "unsupported_pair_is_error"); assert!(s == expected.unwrap(), "parent_marker_file"); kani::cover!(true); }
            Err(e) => { assert!(expected.is_none() && matches!(e, LocalizationError::UnsupportedLanguage), "error_only_for_unsupported_pair"); std::mem::forget(e); }
        }
    }
    #[kani::proof]
    #[kani::unwind(23)]
    fn check_fe9_dir_sub_() {
        let lang = any_language();
        let loc = PathLocalizer::FE9(FE9PathLocalizer {});
        let expected: Option<&str> = match lang {
                Language::EnglishNA => Some("dir/sub"),
                Language::EnglishEU => Some("dir/sub"),
                Language::Japanese => Some("dir/sub"),
                Language::Spanish => Some("dir/s_sub"),
                Language::French => Some("dir/f_sub"),
                Language::Italian => Some("dir/i_sub"),
                Language::German => Some("dir/d_sub"),
                Language::Dutch => None,
        };
        match loc.localize("dir/sub/", &lang) {
            Ok(s) => { assert!(expected.is_some(), "unsupported_pair_is_error"); assert!(s == expected.unwrap(), "parent_marker_file"); kani::cover!(true); }
            Err(e) => { assert!(expected.is_none() && matches!(e, LocalizationError::UnsupportedLanguage), "error_only_for_unsupported_pair"); std::mem::forget(e); }
        }
    }
    #[kani::proof]
    #[kani::unwind(20)]
    fn check_fe9_file() {
        let lang = any_language();
        let loc = PathLocalizer::FE9(FE9PathLocalizer {});
        let expected: Option<&str> = match lang {
                Language::EnglishNA => Some("file/"),
                Language::EnglishEU => Some("file/"),
                Language::Japanese => Some("file/"),
                Language::Spanish => Some("file/s_"),
                Language::French => Some("file/f_"),
                Language::Italian => Some("file/i_"),
                Language::German => Some("file/d_"),
                Language::Dutch => None,
        };
        match loc.localize("file", &lang) {
            Ok(s) => { assert!(expected.is_some(), "unsupported_pair_is_error"); assert!(s == expected.unwrap(), "parent_marker_file"); kani::cover!(true); }
            Err(e) => { assert!(expected.is_none() && matches!(e, LocalizationError::UnsupportedLanguage), "error_only_for_unsupported_pair"); std::mem::forget(e); }
        }
    }
    #[kani::proof]
    #[kani::unwind(10)]
    fn check_fe9_degenerate_empty() {
        let lang = any_language();
        let loc = PathLocalizer::FE9(FE9PathLocalizer {});
        match loc.localize("", &lang) {
            Ok(s) => { std::mem::forget(s); assert!(false, "path_without_final_component_is_error"); }
            Err(e) => { assert!(matches!(e, LocalizationError::MissingParent(_)), "missing_component_error_kind"); std::mem::forget(e); }
        }
    }
    #[kani::proof]
    #[kani::unwind(11)]
    fn check_fe9_degenerate__() {
        let lang = any_language();
        let loc = PathLocalizer::FE9(FE9PathLocalizer {});
        match loc.localize("/", &lang) {
            Ok(s) => { std::mem::forget(s); assert!(false, "path_without_final_component_is_error"); }
            Err(e) => { assert!(matches!(e, LocalizationError::MissingParent(_)), "missing_component_error_kind"); std::mem::forget(e); }
        }
    }
    #[kani::proof]
    #[kani::unwind(12)]
    fn check_fe9_degenerate___() {
        let lang = any_language();
        let loc = PathLocalizer::FE9(FE9PathLocalizer {});
        match loc.localize("..", &lang) {
            Ok(s) => { std::mem::forget(s); assert!(false, "path_without_final_component_is_error"); }
            Err(e) => { assert!(matches!(e, LocalizationError::MissingFileName(_)), "missing_component_error_kind"); std::mem::forget(e); }
        }
    }
    #[kani::proof]
    #[kani::unwind(30)]
    fn check_fe10_m_gamedata_bin_lz() {
        let lang = any_language();
        let loc = PathLocalizer::FE10(FE10PathLocalizer {});
        let expected: Option<&str> = match lang {
                Language::EnglishNA => Some("m/e_GameData.bin.lz"),
                Language::EnglishEU => Some("m/e_GameData.bin.lz"),
                Language::Japanese => Some("m/GameData.bin.lz"),
                Language::Spanish => Some("m/s_GameData.bin.lz"),
                Language::French => Some("m/f_GameData.bin.lz"),
                Language::Italian => Some("m/i_GameData.bin.lz"),
                Language::German => Some("m/d_GameData.bin.lz"),
                Language::Dutch => None,
        };
        match loc.localize("m/GameData.bin.lz", &lang) {
            Ok(s) => { assert!(expected.is_some(), "unsupported_pair_is_error"); assert!(s == expected.unwrap(), "parent_marker_file"); kani::cover!(true); }
            Err(e) => { assert!(expected.is_none() && matches!(e, LocalizationError::UnsupportedLanguage), "error_only_for_unsupported_pair"); std::mem::forget(e); }
        }
    }
    #[kani::proof]
    #[kani::unwind(15)]
    fn check_fe10_m_() {
        let lang = any_language();
        let loc = PathLocalizer::FE10(FE10PathLocalizer {});
        let expected: Option<&str> = match lang {
                Language::EnglishNA => Some("m/e_"),
                Language::EnglishEU => Some("m/e_"),
                Language::Japanese => Some("m/"),
                Language::Spanish => Some("m/s_"),
                Language::French => Some("m/f_"),
                Language::Italian => Some("m/i_"),
                Language::German => Some("m/d_"),
                Language::Dutch => None,
        };
        match loc.localize("m/", &lang) {
            Ok(s) => { assert!(expected.is_some(), "unsupported_pair_is_error"); assert!(s == expected.unwrap(), "parent_marker_file"); kani::cover!(true); }
            Err(e) => { assert!(expected.is_none() && matches!(e, LocalizationError::UnsupportedLanguage), "error_only_for_unsupported_pair"); std::mem::forget(e); }
        }
    }
    #[kani::proof]
    #[kani::unwind(24)]
    fn check_fe10_a_b_c_bin() {
        let lang = any_language();
        let loc = PathLocalizer::FE10(FE10PathLocalizer {});
        let expected: Option<&str> = match lang {
                Language::EnglishNA => Some("a/b/e_c.bin"),
                Language::EnglishEU => Some("a/b/e_c.bin"),
                Language::Japanese => Some("a/b/c.bin"),
                Language::Spanish => Some("a/b/s_c.bin"),
                Language::French => Some("a/b/f_c.bin"),
                Language::Italian => Some("a/b/i_c.bin"),
                Language::German => Some("a/b/d_c.bin"),
                Language::Dutch => None,
        };
        match loc.localize("a/b/c.bin", &lang) {
            Ok(s) => { assert!(expected.is_some(), "unsupported_pair_is_error"); assert!(s == expected.unwrap(), "parent_marker_file"); kani::cover!(true); }
            Err(e) => { assert!(expected.is_none() && matches!(e, LocalizationError::UnsupportedLanguage), "error_only_for_unsupported_pair"); std::mem::forget(e); }
        }
    }
    #[kani::proof]
    #[kani::unwind(32)]
    fn check_fe10_a_b_c_d_e_txt() {
        let lang = any_language();
        let loc = PathLocalizer::FE10(FE10PathLocalizer {});
        let expected: Option<&str> = match lang {
                Language::EnglishNA => Some("a/b/c/d/e_e.txt"),
                Language::EnglishEU => Some("a/b/c/d/e_e.txt"),
                Language::Japanese => Some("a/b/c/d/e.txt"),
                Language::Spanish => Some("a/b/c/d/s_e.txt"),
                Language::French => Some("a/b/c/d/f_e.txt"),
                Language::Italian => Some("a/b/c/d/i_e.txt"),
                Language::German => Some("a/b/c/d/d_e.txt"),
                Language::Dutch => None,
        };
        match loc.localize("a/b/c/d/e.txt", &lang) {
            Ok(s) => { assert!(expected.is_some(), "unsupported_pair_is_error"); assert!(s == expected.unwrap(), "parent_marker_file"); kani::cover!(true); }
            Err(e) => { assert!(expected.is_none() && matches!(e, LocalizationError::UnsupportedLanguage), "error_only_for_unsupported_pair"); std::mem::forget(e); }
        }
    }
    #[kani::proof]
    #[kani::unwind(33)]
    fn check_fe10_data_x_y_1_bin_lz() {
        let lang = any_language();
        let loc = PathLocalizer::FE10(FE10PathLocalizer {});
        let expected: Option<&str> = match lang {
                Language::EnglishNA => Some("data/e_x y@1.bin.lz"),
                Language::EnglishEU => Some("data/e_x y@1.bin.lz"),
                Language::Japanese => Some("data/x y@1.bin.lz"),
                Language::Spanish => Some("data/s_x y@1.bin.lz"),
                Language::French => Some("data/f_x y@1.bin.lz"),
                Language::Italian => Some("data/i_x y@1.bin.lz"),
                Language::German => Some("data/d_x y@1.bin.lz"),
                Language::Dutch => None,
        };
        match loc.localize("data/x y@1.bin.lz", &lang) {
            Ok(s) => { assert!(expected.is_some(), "unsupported_pair_is_error"); assert!(s == expected.unwrap(), "parent_marker_file"); kani::cover!(true); }
            Err(e) => { assert!(expected.is_none() && matches!(e, LocalizationError::UnsupportedLanguage), "error_only_for_unsupported_pair"); std::mem::forget(e); }
        }
    }
    #[kani::proof]
    #[kani::unwind(23)]
    fn check_fe10_dir_sub_() {
        let lang = any_language();
        let loc = PathLocalizer::FE10(FE10PathLocalizer {});
        let expected: Option<&str> = match lang {
                Language::EnglishNA => Some("dir/e_sub"),
                Language::EnglishEU => Some("dir/e_sub"),
                Language::Japanese => Some("dir/sub"),
                Language::Spanish => Some("dir/s_sub"),
                Language::French => Some("dir/f_sub"),
                Language::Italian => Some("dir/i_sub"),
                Language::German => Some("dir/d_sub"),
                Language::Dutch => None,
        };
        match loc.localize("dir/sub/", &lang) {
            Ok(s) => { assert!(expected.is_some(), "unsupported_pair_is_error"); assert!(s == expected.unwrap(), "parent_marker_file"); kani::cover!(true); }
            Err(e) => { assert!(expected.is_none() && matches!(e, LocalizationError::UnsupportedLanguage), "error_only_for_unsupported_pair"); std::mem::forget(e); }
        }
    }
    #[kani::proof]
    #[kani::unwind(20)]
    fn check_fe10_file() {
        let lang = any_language();
        let loc = PathLocalizer::FE10(FE10PathLocalizer {});
        let expected: Option<&str> = match lang {
                Language::EnglishNA => Some("file/e_"),
                Language::EnglishEU => Some("file/e_"),
                Language::Japanese => Some("file/"),
                Language::Spanish => Some("file/s_"),
                Language::French => Some("file/f_"),
                Language::Italian => Some("file/i_"),
                Language::German => Some("file/d_"),
                Language::Dutch => None,
        };
        match loc.localize("file", &lang) {
            Ok(s) => { assert!(expected.is_some(), "unsupported_pair_is_error"); assert!(s == expected.unwrap(), "parent_marker_file"); kani::cover!(true); }
            Err(e) => { assert!(expected.is_none() && matches!(e, LocalizationError::UnsupportedLanguage), "error_only_for_unsupported_pair"); std::mem::forget(e); }
        }
    }
    #[kani::proof]
    #[kani::unwind(10)]
    fn check_fe10_degenerate_empty() {
        let lang = any_language();
        let loc = PathLocalizer::FE10(FE10PathLocalizer {});
        match loc.localize("", &lang) {
            Ok(s) => { std::mem::forget(s); assert!(false, "path_without_final_component_is_error"); }
            Err(e) => { assert!(matches!(e, LocalizationError::MissingParent(_)), "missing_component_error_kind"); std::mem::forget(e); }
        }
    }
    #[kani::proof]
    #[kani::unwind(11)]
    fn check_fe10_degenerate__() {
        let lang = any_language();
        let loc = PathLocalizer::FE10(FE10PathLocalizer {});
        match loc.localize("/", &lang) {
            Ok(s) => { std::mem::forget(s); assert!(false, "path_without_final_component_is_error"); }
            Err(e) => { assert!(matches!(e, LocalizationError::MissingParent(_)), "missing_component_error_kind"); std::mem::forget(e); }
        }
    }
    #[kani::proof]
    #[kani::unwind(12)]
    fn check_fe10_degenerate___() {
        let lang = any_language();
        let loc = PathLocalizer::FE10(FE10PathLocalizer {});
        match loc.localize("..", &lang) {
            Ok(s) => { std::mem::forget(s); assert!(false, "path_without_final_component_is_error"); }
            Err(e) => { assert!(matches!(e, LocalizationError::MissingFileName(_)), "missing_component_error_kind"); std::mem::forget(e); }
        }
    }
    #[kani::proof]
    #[kani::unwind(30)]
    fn check_fe13_m_gamedata_bin_lz() {
        let lang = any_language();
        let loc = PathLocalizer::FE13(FE13PathLocalizer {});
        let expected: Option<&str> = match lang {
                Language::EnglishNA => Some("m/E/GameData.bin.lz"),
                Language::EnglishEU => Some("m/U/GameData.bin.lz"),
                Language::Japanese => Some("m/GameData.bin.lz"),
                Language::Spanish => Some("m/S/GameData.bin.lz"),
                Language::French => Some("m/F/GameData.bin.lz"),
                Language::Italian => Some("m/I/GameData.bin.lz"),
                Language::German => Some("m/G/GameData.bin.lz"),
                Language::Dutch => None,
        };
        match loc.localize("m/GameData.bin.lz", &lang) {
            Ok(s) => { assert!(expected.is_some(), "unsupported_pair_is_error"); assert!(s == expected.unwrap(), "parent_marker_file"); kani::cover!(true); }
            Err(e) => { assert!(expected.is_none() && matches!(e, LocalizationError::UnsupportedLanguage), "error_only_for_unsupported_pair"); std::mem::forget(e); }
        }
    }
    #[kani::proof]
    #[kani::unwind(15)]
    fn check_fe13_m_() {
        let lang = any_language();
        let loc = PathLocalizer::FE13(FE13PathLocalizer {});
        let expected: Option<&str> = match lang {
                Language::EnglishNA => Some("m/E/"),
                Language::EnglishEU => Some("m/U/"),
                Language::Japanese => Some("m/"),
                Language::Spanish => Some("m/S/"),
                Language::French => Some("m/F/"),
                Language::Italian => Some("m/I/"),
                Language::German => Some("m/G/"),
                Language::Dutch => None,
        };
        match loc.localize("m/", &lang) {
            Ok(s) => { assert!(expected.is_some(), "unsupported_pair_is_error"); assert!(s == expected.unwrap(), "parent_marker_file"); kani::cover!(true); }
            Err(e) => { assert!(expected.is_none() && matches!(e, LocalizationError::UnsupportedLanguage), "error_only_for_unsupported_pair"); std::mem::forget(e); }
        }
    }
    #[kani::proof]
    #[kani::unwind(24)]
    fn check_fe13_a_b_c_bin() {
        let lang = any_language();
        let loc = PathLocalizer::FE13(FE13PathLocalizer {});
        let expected: Option<&str> = match lang {
                Language::EnglishNA => Some("a/b/E/c.bin"),
                Language::EnglishEU => Some("a/b/U/c.bin"),
                Language::Japanese => Some("a/b/c.bin"),
                Language::Spanish => Some("a/b/S/c.bin"),
                Language::French => Some("a/b/F/c.bin"),
                Language::Italian => Some("a/b/I/c.bin"),
                Language::German => Some("a/b/G/c.bin"),
                Language::Dutch => None,
        };
        match loc.localize("a/b/c.bin", &lang) {
            Ok(s) => { assert!(expected.is_some(), "unsupported_pair_is_error"); assert!(s == expected.unwrap(), "parent_marker_file"); kani::cover!(true); }
            Err(e) => { assert!(expected.is_none() && matches!(e, LocalizationError::UnsupportedLanguage), "error_only_for_unsupported_pair"); std::mem::forget(e); }
        }
    }
    #[kani::proof]
    #[kani::unwind(32)]
    fn check_fe13_a_b_c_d_e_txt() {
        let lang = any_language();
        let loc = PathLocalizer::FE13(FE13PathLocalizer {});
        let expected: Option<&str> = match lang {
                Language::EnglishNA => Some("a/b/c/d/E/e.txt"),
                Language::EnglishEU => Some("a/b/c/d/U/e.txt"),
                Language::Japanese => Some("a/b/c/d/e.txt"),
                Language::Spanish => Some("a/b/c/d/S/e.txt"),
                Language::French => Some("a/b/c/d/F/e.txt"),
                Language::Italian => Some("a/b/c/d/I/e.txt"),
                Language::German => Some("a/b/c/d/G/e.txt"),
                Language::Dutch => None,
        };
        match loc.localize("a/b/c/d/e.txt", &lang) {
            Ok(s) => { assert!(expected.is_some(), "unsupported_pair_is_error"); assert!(s == expected.unwrap(), "parent_marker_file"); kani::cover!(true); }
            Err(e) => { assert!(expected.is_none() && matches!(e, LocalizationError::UnsupportedLanguage), "error_only_for_unsupported_pair"); std::mem::forget(e); }
        }
    }
    #[kani::proof]
    #[kani::unwind(33)]
    fn check_fe13_data_x_y_1_bin_lz() {
        let lang = any_language();
        let loc = PathLocalizer::FE13(FE13PathLocalizer {});
        let expected: Option<&str> = match lang {
                Language::EnglishNA => Some("data/E/x y@1.bin.lz"),
                Language::EnglishEU => Some("data/U/x y@1.bin.lz"),
                Language::Japanese => Some("data/x y@1.bin.lz"),
                Language::Spanish => Some("data/S/x y@1.bin.lz"),
                Language::French => Some("data/F/x y@1.bin.lz"),
                Language::Italian => Some("data/I/x y@1.bin.lz"),
                Language::German => Some("data/G/x y@1.bin.lz"),
                Language::Dutch => None,
        };
        match loc.localize("data/x y@1.bin.lz", &lang) {
            Ok(s) => { assert!(expected.is_some(), "unsupported_pair_is_error"); assert!(s == expected.unwrap(), "parent_marker_file"); kani::cover!(true); }
            Err(e) => { assert!(expected.is_none() && matches!(e, LocalizationError::UnsupportedLanguage), "error_only_for_unsupported_pair"); std::mem::forget(e); }
        }
    }
    #[kani::proof]
    #[kani::unwind(23)]
    fn check_fe13_dir_sub_() {
        let lang = any_language();
        let loc = PathLocalizer::FE13(FE13PathLocalizer {});
        let expected: Option<&str> = match lang {
                Language::EnglishNA => Some("dir/E/sub"),
                Language::EnglishEU => Some("dir/U/sub"),
                Language::Japanese => Some("dir/sub"),
                Language::Spanish => Some("dir/S/sub"),
                Language::French => Some("dir/F/sub"),
                Language::Italian => Some("dir/I/sub"),
                Language::German => Some("dir/G/sub"),
                Language::Dutch => None,
        };
        match loc.localize("dir/sub/", &lang) {
            Ok(s) => { assert!(expected.is_some(), "unsupported_pair_is_error"); assert!(s == expected.unwrap(), "parent_marker_file"); kani::cover!(true); }
            Err(e) => { assert!(expected.is_none() && matches!(e, LocalizationError::UnsupportedLanguage), "error_only_for_unsupported_pair"); std::mem::forget(e); }
        }
    }
    #[kani::proof]
    #[kani::unwind(20)]
    fn check_fe13_file() {
        let lang = any_language();
        let loc = PathLocalizer::FE13(FE13PathLocalizer {});
        let expected: Option<&str> = match lang {
                Language::EnglishNA => Some("file/E/"),
                Language::EnglishEU => Some("file/U/"),
                Language::Japanese => Some("file/"),
                Language::Spanish => Some("file/S/"),
                Language::French => Some("file/F/"),
                Language::Italian => Some("file/I/"),
                Language::German => Some("file/G/"),
                Language::Dutch => None,
        };
        match loc.localize("file", &lang) {
            Ok(s) => { assert!(expected.is_some(), "unsupported_pair_is_error"); assert!(s == expected.unwrap(), "parent_marker_file"); kani::cover!(true); }
            Err(e) => { assert!(expected.is_none() && matches!(e, LocalizationError::UnsupportedLanguage), "error_only_for_unsupported_pair"); std::mem::forget(e); }
        }
    }
    #[kani::proof]
    #[kani::unwind(10)]
    fn check_fe13_degenerate_empty() {
        let lang = any_language();
        let loc = PathLocalizer::FE13(FE13PathLocalizer {});
        match loc.localize("", &lang) {
            Ok(s) => { std::mem::forget(s); assert!(false, "path_without_final_component_is_error"); }
            Err(e) => { assert!(matches!(e, LocalizationError::MissingParent(_)), "missing_component_error_kind"); std::mem::forget(e); }
        }
    }
    #[kani::proof]
    #[kani::unwind(11)]
    fn check_fe13_degenerate__() {
        let lang = any_language();
        let loc = PathLocalizer::FE13(FE13PathLocalizer {});
        match loc.localize("/", &lang) {
            Ok(s) => { std::mem::forget(s); assert!(false, "path_without_final_component_is_error"); }
            Err(e) => { assert!(matches!(e, LocalizationError::MissingParent(_)), "missing_component_error_kind"); std::mem::forget(e); }
        }
    }
    #[kani::proof]
    #[kani::unwind(12)]
    fn check_fe13_degenerate___() {
        let lang = any_language();
        let loc = PathLocalizer::FE13(FE13PathLocalizer {});
        match loc.localize("..", &lang) {
            Ok(s) => { std::mem::forget(s); assert!(false, "path_without_final_component_is_error"); }
            Err(e) => { assert!(matches!(e, LocalizationError::MissingFileName(_)), "missing_component_error_kind"); std::mem::forget(e); }
        }
    }
    #[kani::proof]
    #[kani::unwind(30)]
    fn check_fe14_m_gamedata_bin_lz() {
        let lang = any_language();
        let loc = PathLocalizer::FE14(FE14PathLocalizer {});
        let expected: Option<&str> = match lang {
                Language::EnglishNA => Some("m/@E/GameData.bin.lz"),
                Language::EnglishEU => Some("m/@U/GameData.bin.lz"),
                Language::Japanese => Some("m/GameData.bin.lz"),
                Language::Spanish => Some("m/@S/GameData.bin.lz"),
                Language::French => Some("m/@F/GameData.bin.lz"),
                Language::Italian => Some("m/@I/GameData.bin.lz"),
                Language::German => Some("m/@G/GameData.bin.lz"),
                Language::Dutch => None,
        };
        match loc.localize("m/GameData.bin.lz", &lang) {
            Ok(s) => { assert!(expected.is_some(), "unsupported_pair_is_error"); assert!(s == expected.unwrap(), "parent_marker_file"); kani::cover!(true); }
            Err(e) => { assert!(expected.is_none() && matches!(e, LocalizationError::UnsupportedLanguage), "error_only_for_unsupported_pair"); std::mem::forget(e); }
        }
    }
    #[kani::proof]
    #[kani::unwind(15)]
    fn check_fe14_m_() {
        let lang = any_language();
        let loc = PathLocalizer::FE14(FE14PathLocalizer {});
        let expected: Option<&str> = match lang {
                Language::EnglishNA => Some("m/@E/"),
                Language::EnglishEU => Some("m/@U/"),
                Language::Japanese => Some("m/"),
                Language::Spanish => Some("m/@S/"),
                Language::French => Some("m/@F/"),
                Language::Italian => Some("m/@I/"),
                Language::German => Some("m/@G/"),
                Language::Dutch => None,
        };
        match loc.localize("m/", &lang) {
            Ok(s) => { assert!(expected.is_some(), "unsupported_pair_is_error"); assert!(s == expected.unwrap(), "parent_marker_file"); kani::cover!(true); }
            Err(e) => { assert!(expected.is_none() && matches!(e, LocalizationError::UnsupportedLanguage), "error_only_for_unsupported_pair"); std::mem::forget(e); }
        }
    }
    #[kani::proof]
    #[kani::unwind(24)]
    fn check_fe14_a_b_c_bin() {
        let lang = any_language();
        let loc = PathLocalizer::FE14(FE14PathLocalizer {});
        let expected: Option<&str> = match lang {
                Language::EnglishNA => Some("a/b/@E/c.bin"),
                Language::EnglishEU => Some("a/b/@U/c.bin"),
                Language::Japanese => Some("a/b/c.bin"),
                Language::Spanish => Some("a/b/@S/c.bin"),
                Language::French => Some("a/b/@F/c.bin"),
                Language::Italian => Some("a/b/@I/c.bin"),
                Language::German => Some("a/b/@G/c.bin"),
                Language::Dutch => None,
        };
        match loc.localize("a/b/c.bin", &lang) {
            Ok(s) => { assert!(expected.is_some(), "unsupported_pair_is_error"); assert!(s == expected.unwrap(), "parent_marker_file"); kani::cover!(true); }
            Err(e) => { assert!(expected.is_none() && matches!(e, LocalizationError::UnsupportedLanguage), "error_only_for_unsupported_pair"); std::mem::forget(e); }
        }
    }
    #[kani::proof]
    #[kani::unwind(32)]
    fn check_fe14_a_b_c_d_e_txt() {
        let lang = any_language();
        let loc = PathLocalizer::FE14(FE14PathLocalizer {});
        let expected: Option<&str> = match lang {
                Language::EnglishNA => Some("a/b/c/d/@E/e.txt"),
                Language::EnglishEU => Some("a/b/c/d/@U/e.txt"),
                Language::Japanese => Some("a/b/c/d/e.txt"),
                Language::Spanish => Some("a/b/c/d/@S/e.txt"),
                Language::French => Some("a/b/c/d/@F/e.txt"),
                Language::Italian => Some("a/b/c/d/@I/e.txt"),
                Language::German => Some("a/b/c/d/@G/e.txt"),
                Language::Dutch => None,
        };
        match loc.localize("a/b/c/d/e.txt", &lang) {
            Ok(s) => { assert!(expected.is_some(), "unsupported_pair_is_error"); assert!(s == expected.unwrap(), "parent_marker_file"); kani::cover!(true); }
            Err(e) => { assert!(expected.is_none() && matches!(e, LocalizationError::UnsupportedLanguage), "error_only_for_unsupported_pair"); std::mem::forget(e); }
        }
    }
    #[kani::proof]
    #[kani::unwind(33)]
    fn check_fe14_data_x_y_1_bin_lz() {
        let lang = any_language();
        let loc = PathLocalizer::FE14(FE14PathLocalizer {});
        let expected: Option<&str> = match lang {
                Language::EnglishNA => Some("data/@E/x y@1.bin.lz"),
                Language::EnglishEU => Some("data/@U/x y@1.bin.lz"),
                Language::Japanese => Some("data/x y@1.bin.lz"),
                Language::Spanish => Some("data/@S/x y@1.bin.lz"),
                Language::French => Some("data/@F/x y@1.bin.lz"),
                Language::Italian => Some("data/@I/x y@1.bin.lz"),
                Language::German => Some("data/@G/x y@1.bin.lz"),
                Language::Dutch => None,
        };
        match loc.localize("data/x y@1.bin.lz", &lang) {
            Ok(s) => { assert!(expected.is_some(), "unsupported_pair_is_error"); assert!(s == expected.unwrap(), "parent_marker_file"); kani::cover!(true); }
            Err(e) => { assert!(expected.is_none() && matches!(e, LocalizationError::UnsupportedLanguage), "error_only_for_unsupported_pair"); std::mem::forget(e); }
        }
    }
    #[kani::proof]
    #[kani::unwind(23)]
    fn check_fe14_dir_sub_() {
        let lang = any_language();
        let loc = PathLocalizer::FE14(FE14PathLocalizer {});
        let expected: Option<&str> = match lang {
                Language::EnglishNA => Some("dir/@E/sub"),
                Language::EnglishEU => Some("dir/@U/sub"),
                Language::Japanese => Some("dir/sub"),
                Language::Spanish => Some("dir/@S/sub"),
                Language::French => Some("dir/@F/sub"),
                Language::Italian => Some("dir/@I/sub"),
                Language::German => Some("dir/@G/sub"),
                Language::Dutch => None,
        };
        match loc.localize("dir/sub/", &lang) {
            Ok(s) => { assert!(expected.is_some(), "unsupported_pair_is_error"); assert!(s == expected.unwrap(), "parent_marker_file"); kani::cover!(true); }
            Err(e) => { assert!(expected.is_none() && matches!(e, LocalizationError::UnsupportedLanguage), "error_only_for_unsupported_pair"); std::mem::forget(e); }
        }
    }
    #[kani::proof]
    #[kani::unwind(20)]
    fn check_fe14_file() {
        let lang = any_language();
        let loc = PathLocalizer::FE14(FE14PathLocalizer {});
        let expected: Option<&str> = match lang {
                Language::EnglishNA => Some("file/@E/"),
                Language::EnglishEU => Some("file/@U/"),
                Language::Japanese => Some("file/"),
                Language::Spanish => Some("file/@S/"),
                Language::French => Some("file/@F/"),
                Language::Italian => Some("file/@I/"),
                Language::German => Some("file/@G/"),
                Language::Dutch => None,
        };
        match loc.localize("file", &lang) {
            Ok(s) => { assert!(expected.is_some(), "unsupported_pair_is_error"); assert!(s == expected.unwrap(), "parent_marker_file"); kani::cover!(true); }
            Err(e) => { assert!(expected.is_none() && matches!(e, LocalizationError::UnsupportedLanguage), "error_only_for_unsupported_pair"); std::mem::forget(e); }
        }
    }
    #[kani::proof]
    #[kani::unwind(10)]
    fn check_fe14_degenerate_empty() {
        let lang = any_language();
        let loc = PathLocalizer::FE14(FE14PathLocalizer {});
        match loc.localize("", &lang) {
            Ok(s) => { std::mem::forget(s); assert!(false, "path_without_final_component_is_error"); }
            Err(e) => { assert!(matches!(e, LocalizationError::MissingParent(_)), "missing_component_error_kind"); std::mem::forget(e); }
        }
    }
    #[kani::proof]
    #[kani::unwind(11)]
    fn check_fe14_degenerate__() {
        let lang = any_language();
        let loc = PathLocalizer::FE14(FE14PathLocalizer {});
        match loc.localize("/", &lang) {
            Ok(s) => { std::mem::forget(s); assert!(false, "path_without_final_component_is_error"); }
            Err(e) => { assert!(matches!(e, LocalizationError::MissingParent(_)), "missing_component_error_kind"); std::mem::forget(e); }
        }
    }
    #[kani::proof]
    #[kani::unwind(12)]
    fn check_fe14_degenerate___() {
        let lang = any_language();
        let loc = PathLocalizer::FE14(FE14PathLocalizer {});
        match loc.localize("..", &lang) {
            Ok(s) => { std::mem::forget(s); assert!(false, "path_without_final_component_is_error"); }
            Err(e) => { assert!(matches!(e, LocalizationError::MissingFileName(_)), "missing_component_error_kind"); std::mem::forget(e); }
        }
    }
    #[kani::proof]
    #[kani::unwind(30)]
    fn check_fe15_m_gamedata_bin_lz() {
        let lang = any_language();
        let loc = PathLocalizer::FE15(FE15PathLocalizer {});
        let expected: Option<&str> = match lang {
                Language::EnglishNA => Some("m/@NOA_EN/GameData.bin.lz"),
                Language::EnglishEU => Some("m/@NOE_EN/GameData.bin.lz"),
                Language::Japanese => Some("m/@J/GameData.bin.lz"),
                Language::Spanish => Some("m/@NOE_SP/GameData.bin.lz"),
                Language::French => Some("m/@NOE_FR/GameData.bin.lz"),
                Language::Italian => Some("m/@NOE_IT/GameData.bin.lz"),
                Language::German => Some("m/@NOE_GE/GameData.bin.lz"),
                Language::Dutch => Some("m/@NOE_DU/GameData.bin.lz"),
        };
        match loc.localize("m/GameData.bin.lz", &lang) {
            Ok(s) => { assert!(expected.is_some(), "unsupported_pair_is_error"); assert!(s == expected.unwrap(), "parent_marker_file"); kani::cover!(true); }
            Err(e) => { assert!(expected.is_none() && matches!(e, LocalizationError::UnsupportedLanguage), "error_only_for_unsupported_pair"); std::mem::forget(e); }
        }
    }
    #[kani::proof]
    #[kani::unwind(15)]
    fn check_fe15_m_() {
        let lang = any_language();
        let loc = PathLocalizer::FE15(FE15PathLocalizer {});
        let expected: Option<&str> = match lang {
                Language::EnglishNA => Some("m/@NOA_EN/"),
                Language::EnglishEU => Some("m/@NOE_EN/"),
                Language::Japanese => Some("m/@J/"),
                Language::Spanish => Some("m/@NOE_SP/"),
                Language::French => Some("m/@NOE_FR/"),
                Language::Italian => Some("m/@NOE_IT/"),
                Language::German => Some("m/@NOE_GE/"),
                Language::Dutch => Some("m/@NOE_DU/"),
        };
        match loc.localize("m/", &lang) {
            Ok(s) => { assert!(expected.is_some(), "unsupported_pair_is_error"); assert!(s == expected.unwrap(), "parent_marker_file"); kani::cover!(true); }
            Err(e) => { assert!(expected.is_none() && matches!(e, LocalizationError::UnsupportedLanguage), "error_only_for_unsupported_pair"); std::mem::forget(e); }
        }
    }
    #[kani::proof]
    #[kani::unwind(24)]
    fn check_fe15_a_b_c_bin() {
        let lang = any_language();
        let loc = PathLocalizer::FE15(FE15PathLocalizer {});
        let expected: Option<&str> = match lang {
                Language::EnglishNA => Some("a/b/@NOA_EN/c.bin"),
                Language::EnglishEU => Some("a/b/@NOE_EN/c.bin"),
                Language::Japanese => Some("a/b/@J/c.bin"),
                Language::Spanish => Some("a/b/@NOE_SP/c.bin"),
                Language::French => Some("a/b/@NOE_FR/c.bin"),
                Language::Italian => Some("a/b/@NOE_IT/c.bin"),
                Language::German => Some("a/b/@NOE_GE/c.bin"),
                Language::Dutch => Some("a/b/@NOE_DU/c.bin"),
        };
        match loc.localize("a/b/c.bin", &lang) {
            Ok(s) => { assert!(expected.is_some(), "unsupported_pair_is_error"); assert!(s == expected.unwrap(), "parent_marker_file"); kani::cover!(true); }
            Err(e) => { assert!(expected.is_none() && matches!(e, LocalizationError::UnsupportedLanguage), "error_only_for_unsupported_pair"); std::mem::forget(e); }
        }
    }
    #[kani::proof]
    #[kani::unwind(32)]
    fn check_fe15_a_b_c_d_e_txt() {
        let lang = any_language();
        let loc = PathLocalizer::FE15(FE15PathLocalizer {});
        let expected: Option<&str> = match lang {
                Language::EnglishNA => Some("a/b/c/d/@NOA_EN/e.txt"),
                Language::EnglishEU => Some("a/b/c/d/@NOE_EN/e.txt"),
                Language::Japanese => Some("a/b/c/d/@J/e.txt"),
                Language::Spanish => Some("a/b/c/d/@NOE_SP/e.txt"),
                Language::French => Some("a/b/c/d/@NOE_FR/e.txt"),
                Language::Italian => Some("a/b/c/d/@NOE_IT/e.txt"),
                Language::German => Some("a/b/c/d/@NOE_GE/e.txt"),
                Language::Dutch => Some("a/b/c/d/@NOE_DU/e.txt"),
        };
        match loc.localize("a/b/c/d/e.txt", &lang) {
            Ok(s) => { assert!(expected.is_some(), "unsupported_pair_is_error"); assert!(s == expected.unwrap(), "parent_marker_file"); kani::cover!(true); }
            Err(e) => { assert!(expected.is_none() && matches!(e, LocalizationError::UnsupportedLanguage), "error_only_for_unsupported_pair"); std::mem::forget(e); }
        }
    }
    #[kani::proof]
    #[kani::unwind(33)]
    fn check_fe15_data_x_y_1_bin_lz() {
        let lang = any_language();
        let loc = PathLocalizer::FE15(FE15PathLocalizer {});
        let expected: Option<&str> = match lang {
                Language::EnglishNA => Some("data/@NOA_EN/x y@1.bin.lz"),
                Language::EnglishEU => Some("data/@NOE_EN/x y@1.bin.lz"),
                Language::Japanese => Some("data/@J/x y@1.bin.lz"),
                Language::Spanish => Some("data/@NOE_SP/x y@1.bin.lz"),
                Language::French => Some("data/@NOE_FR/x y@1.bin.lz"),
                Language::Italian => Some("data/@NOE_IT/x y@1.bin.lz"),
                Language::German => Some("data/@NOE_GE/x y@1.bin.lz"),
                Language::Dutch => Some("data/@NOE_DU/x y@1.bin.lz"),
        };
        match loc.localize("data/x y@1.bin.lz", &lang) {
            Ok(s) => { assert!(expected.is_some(), "unsupported_pair_is_error"); assert!(s == expected.unwrap(), "parent_marker_file"); kani::cover!(true); }
            Err(e) => { assert!(expected.is_none() && matches!(e, LocalizationError::UnsupportedLanguage), "error_only_for_unsupported_pair"); std::mem::forget(e); }
        }
    }
    #[kani::proof]
    #[kani::unwind(23)]
    fn check_fe15_dir_sub_() {
        let lang = any_language();
        let loc = PathLocalizer::FE15(FE15PathLocalizer {});
        let expected: Option<&str> = match lang {
                Language::EnglishNA => Some("dir/@NOA_EN/sub"),
                Language::EnglishEU => Some("dir/@NOE_EN/sub"),
                Language::Japanese => Some("dir/@J/sub"),
                Language::Spanish => Some("dir/@NOE_SP/sub"),
                Language::French => Some("dir/@NOE_FR/sub"),
                Language::Italian => Some("dir/@NOE_IT/sub"),
                Language::German => Some("dir/@NOE_GE/sub"),
                Language::Dutch => Some("dir/@NOE_DU/sub"),
        };
        match loc.localize("dir/sub/", &lang) {
            Ok(s) => { assert!(expected.is_some(), "unsupported_pair_is_error"); assert!(s == expected.unwrap(), "parent_marker_file"); kani::cover!(true); }
            Err(e) => { assert!(expected.is_none() && matches!(e, LocalizationError::UnsupportedLanguage), "error_only_for_unsupported_pair"); std::mem::forget(e); }
        }
    }
    #[kani::proof]
    #[kani::unwind(20)]
    fn check_fe15_file() {
        let lang = any_language();
        let loc = PathLocalizer::FE15(FE15PathLocalizer {});
        let expected: Option<&str> = match lang {
                Language::EnglishNA => Some("file/@NOA_EN/"),
                Language::EnglishEU => Some("file/@NOE_EN/"),
                Language::Japanese => Some("file/@J/"),
                Language::Spanish => Some("file/@NOE_SP/"),
                Language::French => Some("file/@NOE_FR/"),
                Language::Italian => Some("file/@NOE_IT/"),
                Language::German => Some("file/@NOE_GE/"),
                Language::Dutch => Some("file/@NOE_DU/"),
        };
        match loc.localize("file", &lang) {
            Ok(s) => { assert!(expected.is_some(), "unsupported_pair_is_error"); assert!(s == expected.unwrap(), "parent_marker_file"); kani::cover!(true); }
            Err(e) => { assert!(expected.is_none() && matches!(e, LocalizationError::UnsupportedLanguage), "error_only_for_unsupported_pair"); std::mem::forget(e); }
        }
    }
    #[kani::proof]
    #[kani::unwind(10)]
    fn check_fe15_degenerate_empty() {
        let lang = any_language();
        let loc = PathLocalizer::FE15(FE15PathLocalizer {});
        match loc.localize("", &lang) {
            Ok(s) => { std::mem::forget(s); assert!(false, "path_without_final_component_is_error"); }
            Err(e) => { assert!(matches!(e, LocalizationError::MissingParent(_)), "missing_component_error_kind"); std::mem::forget(e); }
        }
    }
    #[kani::proof]
    #[kani::unwind(11)]
    fn check_fe15_degenerate__() {
        let lang = any_language();
        let loc = PathLocalizer::FE15(FE15PathLocalizer {});
        match loc.localize("/", &lang) {
            Ok(s) => { std::mem::forget(s); assert!(false, "path_without_final_component_is_error"); }
            Err(e) => { assert!(matches!(e, LocalizationError::MissingParent(_)), "missing_component_error_kind"); std::mem::forget(e); }
        }
    }
    #[kani::proof]
    #[kani::unwind(12)]
    fn check_fe15_degenerate___() {
        let lang = any_language();
        let loc = PathLocalizer::FE15(FE15PathLocalizer {});
        match loc.localize("..", &lang) {
            Ok(s) => { std::mem::forget(s); assert!(false, "path_without_final_component_is_error"); }
            Err(e) => { assert!(matches!(e, LocalizationError::MissingFileName(_)), "missing_component_error_kind"); std::mem::forget(e); }
        }
    }
}
