// C11, "input that ... refers back before the start of the output yields an error, never a
// panic": bounded witness harness on the real LZ13CompressionFormat::decompress (which calls the
// dependency nintendo_lz).  Symbolic exploration of the dependency does not terminate in Kani
// (DESIGN 2), so the bound is a fixed family of 7-byte streams: type byte 0x10 or 0x11 (symbolic),
// declared length 4, one flag byte whose first token is a reference, displacement field symbolic.
#[cfg(kani)]
mod __verif_kani_lzdec {
    use super::*;
    #[kani::proof]
    #[kani::unwind(24)]
    fn check_reference_before_start_is_error() {
        let ty: u8 = if kani::any() { 0x10 } else { 0x11 };
        let lo: u8 = kani::any();
        // the very first token is a back-reference: nothing has been produced yet, so every
        // displacement points before the start of the output
        let stream = [ty, 4, 0, 0, 0x80, 0x20, lo];
        match (LZ13CompressionFormat {}).decompress(&stream) {
            Ok(v) => { std::mem::forget(v); assert!(false, "reference_before_start_is_error"); }
            Err(e) => { std::mem::forget(e); }
        }
    }
}
