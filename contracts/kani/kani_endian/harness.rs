// Kani twins of the Endian contracts (contracts/specs/endian.spec): each clause is asserted on the
// real function in a loop-free harness over the full input domain (complete, bit-precise).
#[cfg(kani)]
mod __verif_kani {
    use super::*;
    fn any_endian() -> Endian { if kani::any() { Endian::Little } else { Endian::Big } }
    #[kani::proof]
    fn check_decode_u16() {
        let e = any_endian();
        let buf: [u8; 8] = kani::any();
        let n: usize = kani::any();
        kani::assume(n <= 8);
        let bytes = &buf[..n];
        match e.decode_u16(bytes) {
            // ensures: bytes.len() == 2 ==> r == Ok(dec(e, bytes))
            Ok(v) => { assert!(bytes.len() == 2, "ok_only_for_exact_width"); assert!(v == (match e { Endian::Little => (bytes[0] as u16) | ((bytes[1] as u16) << 8), Endian::Big => (bytes[1] as u16) | ((bytes[0] as u16) << 8) }), "value_decoded"); kani::cover!(true); }
            // ensures: bytes.len() != 2 ==> r is Err
            Err(x) => { std::mem::forget(x); assert!(bytes.len() != 2, "err_only_for_wrong_width"); kani::cover!(true); }
        }
    }
    #[kani::proof]
    fn check_encode_u16() {
        let e = any_endian();
        let v: u16 = kani::any();
        let r = e.encode_u16(v);
        // ensures: r@ == enc(e, v)
        assert!(r.len() == 2, "encoded_width");
        assert!(match e { Endian::Little => r[0] == ((v >> 0) & 0xff) as u8 && r[1] == ((v >> 8) & 0xff) as u8, Endian::Big => r[0] == ((v >> 8) & 0xff) as u8 && r[1] == ((v >> 0) & 0xff) as u8 }, "bytes_encoded");
        kani::cover!(true);
    }
    #[kani::proof]
    fn check_roundtrip_u16() {
        let e = any_endian();
        let v: u16 = kani::any();
        let b = e.encode_u16(v);
        match e.decode_u16(&b) {
            Ok(d) => assert!(d == v, "roundtrip"),
            Err(x) => { std::mem::forget(x); assert!(false, "roundtrip_decode_ok"); }
        }
    }
    #[kani::proof]
    fn check_decode_u32() {
        let e = any_endian();
        let buf: [u8; 8] = kani::any();
        let n: usize = kani::any();
        kani::assume(n <= 8);
        let bytes = &buf[..n];
        match e.decode_u32(bytes) {
            // ensures: bytes.len() == 4 ==> r == Ok(dec(e, bytes))
            Ok(v) => { assert!(bytes.len() == 4, "ok_only_for_exact_width"); assert!(v == (match e { Endian::Little => (bytes[0] as u32) | ((bytes[1] as u32) << 8) | ((bytes[2] as u32) << 16) | ((bytes[3] as u32) << 24), Endian::Big => (bytes[3] as u32) | ((bytes[2] as u32) << 8) | ((bytes[1] as u32) << 16) | ((bytes[0] as u32) << 24) }), "value_decoded"); kani::cover!(true); }
            // ensures: bytes.len() != 4 ==> r is Err
            Err(x) => { std::mem::forget(x); assert!(bytes.len() != 4, "err_only_for_wrong_width"); kani::cover!(true); }
        }
    }
    #[kani::proof]
    fn check_encode_u32() {
        let e = any_endian();
        let v: u32 = kani::any();
        let r = e.encode_u32(v);
        // ensures: r@ == enc(e, v)
        assert!(r.len() == 4, "encoded_width");
        assert!(match e { Endian::Little => r[0] == ((v >> 0) & 0xff) as u8 && r[1] == ((v >> 8) & 0xff) as u8 && r[2] == ((v >> 16) & 0xff) as u8 && r[3] == ((v >> 24) & 0xff) as u8, Endian::Big => r[0] == ((v >> 24) & 0xff) as u8 && r[1] == ((v >> 16) & 0xff) as u8 && r[2] == ((v >> 8) & 0xff) as u8 && r[3] == ((v >> 0) & 0xff) as u8 }, "bytes_encoded");
        kani::cover!(true);
    }
    #[kani::proof]
    fn check_roundtrip_u32() {
        let e = any_endian();
        let v: u32 = kani::any();
        let b = e.encode_u32(v);
        match e.decode_u32(&b) {
            Ok(d) => assert!(d == v, "roundtrip"),
            Err(x) => { std::mem::forget(x); assert!(false, "roundtrip_decode_ok"); }
        }
    }
    #[kani::proof]
    fn check_decode_i16() {
        let e = any_endian();
        let buf: [u8; 8] = kani::any();
        let n: usize = kani::any();
        kani::assume(n <= 8);
        let bytes = &buf[..n];
        match e.decode_i16(bytes) {
            // ensures: bytes.len() == 2 ==> r == Ok(dec(e, bytes))
            Ok(v) => { assert!(bytes.len() == 2, "ok_only_for_exact_width"); assert!((v as u16) == (match e { Endian::Little => (bytes[0] as u16) | ((bytes[1] as u16) << 8), Endian::Big => (bytes[1] as u16) | ((bytes[0] as u16) << 8) }), "value_decoded"); kani::cover!(true); }
            // ensures: bytes.len() != 2 ==> r is Err
            Err(x) => { std::mem::forget(x); assert!(bytes.len() != 2, "err_only_for_wrong_width"); kani::cover!(true); }
        }
    }
    #[kani::proof]
    fn check_encode_i16() {
        let e = any_endian();
        let v: i16 = kani::any();
        let r = e.encode_i16(v);
        // ensures: r@ == enc(e, v)
        assert!(r.len() == 2, "encoded_width");
        assert!(match e { Endian::Little => r[0] == (((v as u16) >> 0) & 0xff) as u8 && r[1] == (((v as u16) >> 8) & 0xff) as u8, Endian::Big => r[0] == (((v as u16) >> 8) & 0xff) as u8 && r[1] == (((v as u16) >> 0) & 0xff) as u8 }, "bytes_encoded");
        kani::cover!(true);
    }
    #[kani::proof]
    fn check_roundtrip_i16() {
        let e = any_endian();
        let v: i16 = kani::any();
        let b = e.encode_i16(v);
        match e.decode_i16(&b) {
            Ok(d) => assert!(d == v, "roundtrip"),
            Err(x) => { std::mem::forget(x); assert!(false, "roundtrip_decode_ok"); }
        }
    }
    #[kani::proof]
    fn check_decode_i32() {
        let e = any_endian();
        let buf: [u8; 8] = kani::any();
        let n: usize = kani::any();
        kani::assume(n <= 8);
        let bytes = &buf[..n];
        match e.decode_i32(bytes) {
            // ensures: bytes.len() == 4 ==> r == Ok(dec(e, bytes))
            Ok(v) => { assert!(bytes.len() == 4, "ok_only_for_exact_width"); assert!((v as u32) == (match e { Endian::Little => (bytes[0] as u32) | ((bytes[1] as u32) << 8) | ((bytes[2] as u32) << 16) | ((bytes[3] as u32) << 24), Endian::Big => (bytes[3] as u32) | ((bytes[2] as u32) << 8) | ((bytes[1] as u32) << 16) | ((bytes[0] as u32) << 24) }), "value_decoded"); kani::cover!(true); }
            // ensures: bytes.len() != 4 ==> r is Err
            Err(x) => { std::mem::forget(x); assert!(bytes.len() != 4, "err_only_for_wrong_width"); kani::cover!(true); }
        }
    }
    #[kani::proof]
    fn check_encode_i32() {
        let e = any_endian();
        let v: i32 = kani::any();
        let r = e.encode_i32(v);
        // ensures: r@ == enc(e, v)
        assert!(r.len() == 4, "encoded_width");
        assert!(match e { Endian::Little => r[0] == (((v as u32) >> 0) & 0xff) as u8 && r[1] == (((v as u32) >> 8) & 0xff) as u8 && r[2] == (((v as u32) >> 16) & 0xff) as u8 && r[3] == (((v as u32) >> 24) & 0xff) as u8, Endian::Big => r[0] == (((v as u32) >> 24) & 0xff) as u8 && r[1] == (((v as u32) >> 16) & 0xff) as u8 && r[2] == (((v as u32) >> 8) & 0xff) as u8 && r[3] == (((v as u32) >> 0) & 0xff) as u8 }, "bytes_encoded");
        kani::cover!(true);
    }
    #[kani::proof]
    fn check_roundtrip_i32() {
        let e = any_endian();
        let v: i32 = kani::any();
        let b = e.encode_i32(v);
        match e.decode_i32(&b) {
            Ok(d) => assert!(d == v, "roundtrip"),
            Err(x) => { std::mem::forget(x); assert!(false, "roundtrip_decode_ok"); }
        }
    }
    #[kani::proof]
    fn check_decode_f32() {
        let e = any_endian();
        let buf: [u8; 8] = kani::any();
        let n: usize = kani::any();
        kani::assume(n <= 8);
        let bytes = &buf[..n];
        match e.decode_f32(bytes) {
            // ensures: bytes.len() == 4 ==> r == Ok(dec(e, bytes))
            Ok(v) => { assert!(bytes.len() == 4, "ok_only_for_exact_width"); assert!(v.to_bits() == (match e { Endian::Little => (bytes[0] as u32) | ((bytes[1] as u32) << 8) | ((bytes[2] as u32) << 16) | ((bytes[3] as u32) << 24), Endian::Big => (bytes[3] as u32) | ((bytes[2] as u32) << 8) | ((bytes[1] as u32) << 16) | ((bytes[0] as u32) << 24) }), "value_decoded"); kani::cover!(true); }
            // ensures: bytes.len() != 4 ==> r is Err
            Err(x) => { std::mem::forget(x); assert!(bytes.len() != 4, "err_only_for_wrong_width"); kani::cover!(true); }
        }
    }
    #[kani::proof]
    fn check_encode_f32() {
        let e = any_endian();
        let v: f32 = f32::from_bits(kani::any());
        let r = e.encode_f32(v);
        // ensures: r@ == enc(e, v)
        assert!(r.len() == 4, "encoded_width");
        assert!(match e { Endian::Little => r[0] == ((v.to_bits() >> 0) & 0xff) as u8 && r[1] == ((v.to_bits() >> 8) & 0xff) as u8 && r[2] == ((v.to_bits() >> 16) & 0xff) as u8 && r[3] == ((v.to_bits() >> 24) & 0xff) as u8, Endian::Big => r[0] == ((v.to_bits() >> 24) & 0xff) as u8 && r[1] == ((v.to_bits() >> 16) & 0xff) as u8 && r[2] == ((v.to_bits() >> 8) & 0xff) as u8 && r[3] == ((v.to_bits() >> 0) & 0xff) as u8 }, "bytes_encoded");
        kani::cover!(true);
    }
    #[kani::proof]
    fn check_roundtrip_f32() {
        let e = any_endian();
        let v: f32 = f32::from_bits(kani::any());
        let b = e.encode_f32(v);
        match e.decode_f32(&b) {
            Ok(d) => assert!(d.to_bits() == v.to_bits(), "roundtrip"),
            Err(x) => { std::mem::forget(x); assert!(false, "roundtrip_decode_ok"); }
        }
    }
}
