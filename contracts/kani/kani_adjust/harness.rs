// Kani function contract for adjust_pointer (same clauses as contracts/specs/bin_archive.spec):
// all 2^64 x 2^64 x 2^64 x 2 arguments, bit-precise.
#[cfg(kani)]
mod __verif_kani_adjust {
    use super::*;
    #[kani::proof_for_contract(adjust_pointer)]
    fn check_adjust_pointer() {
        adjust_pointer(kani::any(), kani::any(), kani::any(), kani::any());
    }
}
