// C08 / C09 / C10 / C11 companion (bounded): the real compressors and decompressors against an
// independent reference decoder written from the LZ10 / LZ11 format description.
#[cfg(test)]
mod __verif_native_lz {
    use crate::{CompressionFormat, LZ10CompressionFormat, LZ13CompressionFormat};
    include!("__verif_native_common.rs");

    #[derive(Clone, Debug)]
    enum Tok { Lit(u8), Ref { len: usize, disp: usize } }

    /// strict reference parser: header type + 24-bit LE length, flag bytes MSB first, LZ10 two-byte
    /// references, LZ11 three length forms; every reference must reach into produced data only,
    /// displacement 1..=4096; no bytes may be left over.  -> (tokens, expansion)
    fn ref_decode(s: &[u8], ty: u8) -> Result<(Vec<Tok>, Vec<u8>), String> {
        if s.len() < 4 { return Err("shorter than a header".into()); }
        if s[0] != ty { return Err(format!("type byte {:#x}", s[0])); }
        let n = s[1] as usize | (s[2] as usize) << 8 | (s[3] as usize) << 16;
        let (mut out, mut toks, mut i) = (Vec::with_capacity(n), Vec::new(), 4usize);
        while out.len() < n {
            if i >= s.len() { return Err("truncated (flag byte)".into()); }
            let flags = s[i]; i += 1;
            for bit in 0..8 {
                if out.len() >= n {
                    if flags & (0xFFu8 >> bit) != 0 { return Err("flag bits set past the last token".into()); }
                    break;
                }
                if flags & (0x80 >> bit) == 0 {
                    if i >= s.len() { return Err("truncated (literal)".into()); }
                    out.push(s[i]); toks.push(Tok::Lit(s[i])); i += 1;
                } else {
                    let (len, disp);
                    if ty == 0x10 {
                        if i + 2 > s.len() { return Err("truncated (reference)".into()); }
                        len = (s[i] >> 4) as usize + 3;
                        disp = (((s[i] & 0xF) as usize) << 8 | s[i + 1] as usize) + 1;
                        i += 2;
                    } else {
                        if i >= s.len() { return Err("truncated (reference)".into()); }
                        match s[i] >> 4 {
                            0 => { if i + 3 > s.len() { return Err("truncated".into()); }
                                   len = (((s[i] & 0xF) as usize) << 4 | (s[i + 1] >> 4) as usize) + 0x11;
                                   disp = (((s[i + 1] & 0xF) as usize) << 8 | s[i + 2] as usize) + 1; i += 3; }
                            1 => { if i + 4 > s.len() { return Err("truncated".into()); }
                                   len = (((s[i] & 0xF) as usize) << 12 | (s[i + 1] as usize) << 4 | (s[i + 2] >> 4) as usize) + 0x111;
                                   disp = (((s[i + 2] & 0xF) as usize) << 8 | s[i + 3] as usize) + 1; i += 4; }
                            h => { if i + 2 > s.len() { return Err("truncated".into()); }
                                   len = h as usize + 1;
                                   disp = (((s[i] & 0xF) as usize) << 8 | s[i + 1] as usize) + 1; i += 2; }
                        }
                    }
                    if disp > out.len() { return Err(format!("reference before the start (disp {} at {})", disp, out.len())); }
                    if out.len() + len > n { return Err("reference runs past the declared length".into()); }
                    for _ in 0..len { let b = out[out.len() - disp]; out.push(b); }
                    toks.push(Tok::Ref { len, disp });
                }
            }
        }
        if i != s.len() { return Err(format!("{} bytes left over", s.len() - i)); }
        Ok((toks, out))
    }

    /// reference ENCODER from a token list (for C11: streams the library's compressor never emits)
    fn ref_encode(toks: &[Tok], ty: u8) -> (Vec<u8>, Vec<u8>) {
        let mut data: Vec<u8> = Vec::new();
        for t in toks { match t { Tok::Lit(b) => data.push(*b), Tok::Ref { len, disp } => for _ in 0..*len { let b = data[data.len() - disp]; data.push(b); } } }
        let n = data.len();
        let mut s = vec![ty, (n & 0xFF) as u8, ((n >> 8) & 0xFF) as u8, ((n >> 16) & 0xFF) as u8];
        for group in toks.chunks(8) {
            let at = s.len(); s.push(0);
            for (k, t) in group.iter().enumerate() {
                match t {
                    Tok::Lit(b) => s.push(*b),
                    Tok::Ref { len, disp } => {
                        s[at] |= 0x80 >> k;
                        let d = disp - 1;
                        if ty == 0x10 { s.push((((len - 3) << 4) | (d >> 8)) as u8); s.push((d & 0xFF) as u8); }
                        else if *len >= 0x111 { let l = len - 0x111; s.push((0x10 | (l >> 12)) as u8); s.push(((l >> 4) & 0xFF) as u8); s.push((((l & 0xF) << 4) | (d >> 8)) as u8); s.push((d & 0xFF) as u8); }
                        else if *len >= 0x11 { let l = len - 0x11; s.push((l >> 4) as u8); s.push((((l & 0xF) << 4) | (d >> 8)) as u8); s.push((d & 0xFF) as u8); }
                        else { s.push((((len - 1) << 4) | (d >> 8)) as u8); s.push((d & 0xFF) as u8); }
                    }
                }
            }
        }
        (s, data)
    }

    fn inputs() -> Vec<Vec<u8>> {
        let mut v: Vec<Vec<u8>> = vec![vec![]];
        // every string over {a,b} up to 12 bytes, over {0,1,2} up to 7 bytes
        let (max_ab, max_012) = if thorough() { (16usize, 9usize) } else { (12usize, 7usize) };
        for len in 1..=max_ab { for bits in 0..(1u32 << len) { v.push((0..len).map(|i| if bits >> i & 1 == 1 { b'b' } else { b'a' }).collect()); } }
        for len in 1..=max_012 { let mut idx = vec![0u8; len]; loop { v.push(idx.clone());
            let mut k = 0; while k < len { idx[k] += 1; if idx[k] < 3 { break; } idx[k] = 0; k += 1; } if k == len { break; } } }
        // periodic inputs: period p, length n (token counts around multiples of 8 included)
        for &p in &[1usize, 2, 3, 5, 7, 8, 9, 16, 17, 18, 19, 31, 32, 255, 256, 4095, 4096] {
            for &n in &[p, p + 1, p + 2, p + 3, p + 17, p + 18, p + 19, p + 20, 2 * p + 5, 3 * p + 40, p + 300, p + 4096, p + 4097, p + 4200] {
                v.push((0..n).map(|i| ((i % p) as u32).wrapping_mul(2654435761u32).rotate_left(7) as u8 ^ (i % p) as u8).collect());
            }
        }
        // periodic inputs whose period has internal self-overlap (a^k b, abaab, ...): a skipped candidate shows here
        for pat in [&b"ab"[..], b"aab", b"aaab", b"aaaab", b"aaaaab", b"aabab", b"abaab", b"aabaaab", b"abcabd", b"aaaabaaab"] {
            for &n in &[20usize, 50, 100, 365, 1000, 5000, 41000] { v.push((0..n).map(|i| pat[i % pat.len()]).collect()); }
        }
        // long runs: the LZ11 long length form, the 0x10110 cap, look-ahead cap 0x1000
        for &n in &[0x10usize, 0x11, 0x12, 0x13, 0x110, 0x111, 0x112, 0x113, 0xFFF, 0x1000, 0x1001, 0x1002, 0x1003, 8192, 66000, 70000] { v.push(vec![7u8; n]); }
        // window edge: a block that recurs exactly 4095 / 4096 / 4097 bytes later, filler with no repeats of length 3
        for &gap in &[4093usize, 4094, 4095, 4096, 4097, 4098] {
            let mut s: Vec<u8> = b"QWERTYUIOP".to_vec();
            let mut x = 12345u32; while s.len() < gap { x = x.wrapping_mul(1103515245).wrapping_add(12345); s.push((x >> 16) as u8 | 0x80); }
            s.truncate(gap); s.extend_from_slice(b"QWERTYUIOP"); s.extend_from_slice(b"zz"); v.push(s);
        }
        // every token count 1..=40 of pure literals (flush at 8 tokens, final flush)
        for n in 1..=40usize { v.push((0..n).map(|i| (i * 37 + 11) as u8).collect()); }
        // self-overlapping patterns (a partial match followed by a longer one)
        v.push(b"aabaabaaabaabaaab".to_vec()); v.push(b"abcabcabdabcabcabcabd".to_vec()); v.push(b"aaabaaaabaaaaabaaaaaab".to_vec());
        v.push(b"xyxyxyzxyxyxyxyz_xyxyxyxyxyz".to_vec());
        v
    }

    fn period_of(x: &[u8]) -> Option<usize> {
        let n = x.len();
        (1..=n.min(4096)).find(|&p| p < n && (p..n).all(|i| x[i] == x[i - p]))
    }

    #[test]
    fn run() {
        let (lz10, lz13) = (LZ10CompressionFormat {}, LZ13CompressionFormat {});
        for x in inputs() {
            let n = x.len();
            let show = || format!("input[{}] = {}", x.len(), hex(&x));
            // ---------------- LZ10 (C08, C10)
            match no_panic(|| lz10.compress(&x)) {
                Err(p) => { check(false, "C08.lz10_compress_never_panics", || format!("{} -> panic {}", show(), p)); }
                Ok(Err(_)) => { check(false, "C08.lz10_compress_succeeds_below_16MiB", show); }
                Ok(Ok(c)) => {
                    match ref_decode(&c, 0x10) {
                        Err(e) => { check(false, "C08.lz10_stream_well_formed", || format!("{} -> {} : {}", show(), hex(&c), e)); }
                        Ok((toks, out)) => {
                            check(out == x, "C08.lz10_expands_to_input", || format!("{} -> {}", show(), hex(&c)));
                            check(toks.iter().all(|t| match t { Tok::Ref { len, disp } => (3..=18).contains(len) && (1..=4096).contains(disp), _ => true }),
                                  "C08.lz10_reference_ranges", show);
                            let refs = toks.iter().filter(|t| matches!(t, Tok::Ref { .. })).count();
                            let lits = toks.len() - refs;
                            if let Some(p) = period_of(&x) {
                                // C10 closed form (a bound on the size): header + (p+2) literals + R references of 2 bytes,
                                // R = ceil((n-p)/18)+1, + one flag byte per eight tokens
                                let r = (n - p + 17) / 18 + 1;
                                check(c.len() <= 4 + (p + 2) + 2 * r + (p + 2 + r + 7) / 8, "C10.lz10_periodic_input_uses_window_and_full_length",
                                      || format!("{} period {} -> {} bytes ({} literals {} refs)", show(), p, c.len(), lits, refs));
                            }
                        }
                    }
                    check(c.len() <= 4 + n + (n + 7) / 8, "C10.lz10_size_bound", || format!("{} -> {} bytes", show(), c.len()));
                    match no_panic(|| lz10.decompress(&c)) {
                        Ok(Ok(d)) => { check(d == x, "C08.lz10_library_round_trip", show); }
                        _ => { check(false, "C08.lz10_library_round_trip", show); }
                    }
                }
            }
            // ---------------- LZ13 (C09, C10)
            match no_panic(|| lz13.compress(&x)) {
                Err(p) => { check(false, "C09.lz13_compress_never_panics", || format!("{} -> panic {}", show(), p)); }
                Ok(Err(_)) => { /* Ok or Err are both allowed for every input; the remaining clauses are for non-empty inputs */
                    check(n == 0, "C09.lz13_compress_succeeds_on_non_empty_input", show); }
                Ok(Ok(c)) => if n > 0 {
                    if check(c.len() >= 8 && c[0] == 0x13, "C09.lz13_wrapper", || format!("{} -> {}", show(), hex(&c))) {
                        match ref_decode(&c[4..], 0x11) {
                            Err(e) => { check(false, "C09.lz11_stream_well_formed", || format!("{} -> {} : {}", show(), hex(&c), e)); }
                            Ok((toks, out)) => {
                                check(out == x, "C09.lz11_expands_to_input", || format!("{} -> {}", show(), hex(&c)));
                                check(toks.iter().all(|t| match t { Tok::Ref { len, disp } => *len >= 3 && (1..=4096).contains(disp), _ => true }), "C09.lz11_reference_ranges", show);
                                let refs = toks.iter().filter(|t| matches!(t, Tok::Ref { .. })).count();
                                let lits = toks.len() - refs;
                                if let Some(p) = period_of(&x) {
                                    let r = (n - p + 4095) / 4096 + 1;      // references of at most 4 bytes, L = 4096
                                    check(c.len() <= 8 + (p + 2) + 4 * r + (p + 2 + r + 7) / 8, "C10.lz13_periodic_input_uses_window_and_full_length",
                                          || format!("{} period {} -> {} bytes ({} literals {} refs)", show(), p, c.len(), lits, refs));
                                }
                            }
                        }
                        check(c.len() <= 8 + n + (n + 7) / 8, "C10.lz13_size_bound", || format!("{} -> {} bytes", show(), c.len()));
                        match no_panic(|| lz13.decompress(&c)) {
                            Ok(Ok(d)) => { check(d == x, "C09.lz13_library_round_trip", show); }
                            _ => { check(false, "C09.lz13_library_round_trip", show); }
                        }
                    }
                },
            }
        }
        // ---------------- C11: conforming streams a compressor of ours never emits
        let mut streams: Vec<(Vec<Tok>, &'static str)> = Vec::new();
        let lits = |n: usize| -> Vec<Tok> { (0..n).map(|i| Tok::Lit((i * 29 + 3) as u8)).collect() };
        for &(len, disp, pre) in &[(3usize, 1usize, 1usize), (18, 1, 1), (3, 2, 2), (5, 3, 3), (18, 7, 7), (3, 4096, 4096), (18, 4096, 4096), (10, 4095, 4096), (4, 1, 9), (18, 9, 9)] {
            let mut t = lits(pre); t.push(Tok::Ref { len, disp }); t.push(Tok::Lit(0xEE)); streams.push((t, "both"));
        }
        for &(len, disp, pre) in &[(0x10usize, 1usize, 1usize), (0x11, 1, 1), (0x12, 2, 3), (0x110, 1, 2), (0x111, 1, 1), (0x112, 5, 5), (0x1000, 3, 3), (0x10110, 1, 1), (0x5000, 4096, 4096), (4, 2, 3), (0x11, 4096, 4096)] {
            let mut t = lits(pre); t.push(Tok::Ref { len, disp }); t.push(Tok::Lit(0x42)); t.push(Tok::Ref { len: 3, disp: 1 }); streams.push((t, "lz11"));
        }
        { let mut t = lits(2); for k in 0..20 { t.push(Tok::Ref { len: 3 + (k % 5), disp: 1 + (k % 2) }); } streams.push((t, "both")); }
        for (toks, which) in &streams {
            for &ty in &[0x10u8, 0x11u8] {
                if ty == 0x10 && (*which == "lz11" || toks.iter().any(|t| matches!(t, Tok::Ref { len, .. } if *len > 18))) { continue; }
                let (s, data) = ref_encode(toks, ty);
                let show = || format!("type {:#x} tokens {:?} stream {}", ty, toks.iter().filter(|t| matches!(t, Tok::Ref { .. })).collect::<Vec<_>>(), hex(&s));
                let mut wrapped = vec![0x13, 0, 0, 0]; wrapped.extend_from_slice(&s);
                let entry: Vec<(&str, Box<dyn Fn() -> Result<Vec<u8>, crate::CompressionError>>)> = vec![
                    ("lz13.decompress(bare stream)", Box::new(|| lz13.decompress(&s))),
                    ("lz13.decompress(0x13 wrapper)", Box::new(|| lz13.decompress(&wrapped))),
                    ("CompressionFormat::LZ13", Box::new(|| CompressionFormat::LZ13(LZ13CompressionFormat {}).decompress(&wrapped))),
                    ("lz10.decompress", Box::new(|| lz10.decompress(&s))),
                ];
                for (name, f) in entry {
                    match no_panic(|| f()) {
                        Ok(Ok(d)) => { check(d == data, "C11.conforming_stream_decodes_exactly", || format!("{} via {}", show(), name)); }
                        Ok(Err(_)) => { check(false, "C11.conforming_stream_is_accepted", || format!("{} via {}", show(), name)); }
                        Err(p) => { check(false, "C11.decompress_never_panics", || format!("{} via {} -> panic {}", show(), name, p)); }
                    }
                }
                // every strict prefix is truncated input: an error, never a panic, never a wrong success
                for cut in 0..s.len() {
                    let pre = &s[..cut];
                    match no_panic(|| lz13.decompress(pre)) {
                        Ok(Ok(d)) => { check(cut >= 4 && pre[0] == 0, "C11.truncated_stream_is_an_error", || format!("{} cut at {} -> Ok({} bytes)", show(), cut, d.len())); }
                        Ok(Err(_)) => {}
                        Err(p) => { check(false, "C11.decompress_never_panics", || format!("{} cut at {} -> panic {}", show(), cut, p)); }
                    }
                }
            }
        }
        // stored form, empty input, unknown types
        check(matches!(no_panic(|| lz13.decompress(&[0, 9, 9, 9, 1, 2, 3])), Ok(Ok(ref d)) if d == &[1u8, 2, 3]), "C11.stored_form_returns_payload", || "00 09 09 09 01 02 03".into());
        for bad in [vec![], vec![0x10], vec![0x13, 0, 0], vec![0x55, 4, 0, 0, 1, 2, 3, 4], vec![0x13, 0, 0, 0], vec![0x13, 0, 0, 0, 0x77, 1, 0, 0, 0, 1]] {
            for (name, r) in [("lz13", no_panic(|| lz13.decompress(&bad))), ("lz10", no_panic(|| lz10.decompress(&bad)))] {
                match r { Ok(Ok(_)) => { check(false, "C11.malformed_input_is_an_error", || format!("{} via {}", hex(&bad), name)); }
                          Ok(Err(_)) => {}
                          Err(p) => { check(false, "C11.decompress_never_panics", || format!("{} via {} -> panic {}", hex(&bad), name, p)); } }
            }
        }
        // a reference before the start of the output (F9: known finding in the dependency)
        for s in [vec![0x10u8, 4, 0, 0, 0x80, 0x20, 0x00], vec![0x11u8, 4, 0, 0, 0x80, 0x20, 0x05], vec![0x10u8, 8, 0, 0, 0x40, 0x61, 0x30, 0x03]] {
            match no_panic(|| lz13.decompress(&s)) {
                Ok(Ok(_)) => { check(false, "C11.reference_before_start_is_an_error", || hex(&s)); }
                Ok(Err(_)) => {}
                Err(p) => { check(false, "C11.reference_before_start_never_panics", || format!("{} -> panic {}", hex(&s), p)); }
            }
        }
        finish("native_lz");
    }
}
