// C12 / C13 / C14 companion (bounded): LayeredFilesystem on temporary directories, PathLocalizer against the
// marker table of the statement.  Bounded stand-in only: the observable behaviour is the effect of std::fs / glob
// / normpath on the host file system, which no contract within reach of Verus or Kani can express.
#[cfg(test)]
mod __verif_native_fs {
    use crate::{BinArchive, Endian, Game, Language, LayeredFilesystem, LocalizationError, PathLocalizer, TextArchive, TextArchiveFormat};
    use crate::{FE10PathLocalizer, FE13PathLocalizer, FE14PathLocalizer, FE15PathLocalizer, FE9PathLocalizer};
    use std::collections::BTreeSet;
    use std::path::Path;
    include!("__verif_native_common.rs");

    const LANGS: [Language; 8] = [Language::EnglishNA, Language::EnglishEU, Language::Japanese, Language::Spanish, Language::French, Language::Italian, Language::German, Language::Dutch];
    /// the marker inserted between the directory part and the final component, from C14's statement
    fn marker(game: Game, lang: Language) -> Option<&'static str> {
        use Language::*;
        match game {
            Game::FE9 => match lang { Japanese | EnglishNA | EnglishEU => Some("/"), Spanish => Some("/s_"), German => Some("/d_"), Italian => Some("/i_"), French => Some("/f_"), Dutch => None },
            Game::FE10 => match lang { Japanese => Some("/"), EnglishNA | EnglishEU => Some("/e_"), Spanish => Some("/s_"), German => Some("/d_"), Italian => Some("/i_"), French => Some("/f_"), Dutch => None },
            Game::FE13 => match lang { Japanese => Some("/"), EnglishNA => Some("/E/"), EnglishEU => Some("/U/"), Spanish => Some("/S/"), French => Some("/F/"), German => Some("/G/"), Italian => Some("/I/"), Dutch => None },
            Game::FE14 => match lang { Japanese => Some("/"), EnglishNA => Some("/@E/"), EnglishEU => Some("/@U/"), Spanish => Some("/@S/"), French => Some("/@F/"), German => Some("/@G/"), Italian => Some("/@I/"), Dutch => None },
            Game::FE15 => match lang { Japanese => Some("/@J/"), EnglishNA => Some("/@NOA_EN/"), EnglishEU => Some("/@NOE_EN/"), Spanish => Some("/@NOE_SP/"), French => Some("/@NOE_FR/"), German => Some("/@NOE_GE/"), Italian => Some("/@NOE_IT/"), Dutch => Some("/@NOE_DU/") },
            _ => None,
        }
    }
    fn localizer(game: Game) -> PathLocalizer { match game { Game::FE9 => PathLocalizer::FE9(FE9PathLocalizer {}), Game::FE10 => PathLocalizer::FE10(FE10PathLocalizer {}),
        Game::FE13 => PathLocalizer::FE13(FE13PathLocalizer {}), Game::FE14 => PathLocalizer::FE14(FE14PathLocalizer {}), _ => PathLocalizer::FE15(FE15PathLocalizer {}) } }
    /// directory part and final component of a relative path written with '/', split by hand
    fn split(path: &str) -> (String, String) {
        let p = path.trim_end_matches('/');
        match p.rfind('/') { Some(i) => (p[..i].to_string(), p[i + 1..].to_string()), None => (String::new(), p.to_string()) }
    }
    fn expected(game: Game, lang: Language, path: &str) -> Option<String> {
        let m = marker(game, lang)?;
        let (dir, file) = split(path);
        Some(if dir.is_empty() { format!("{}{}", file, m) } else { format!("{}{}{}", dir, m, file) })      // a single component is a directory: marker appended
    }
    const GAMES: [Game; 5] = [Game::FE9, Game::FE10, Game::FE13, Game::FE14, Game::FE15];

    fn check_localize() {
        let paths = ["m/GameData.bin.lz", "m/", "m", "a/b/c.bin", "a b/c d.bin", " m/x", "m /x", "m/ x ", " a / b /c", "dir.with.dots/@file", "a/b/", "x/y/z/w/f.e", "Mess/common.m", "日本/語.bin", "a/.hidden", "a/b.c.d",
            // a backslash is an ordinary character of a component here: the directory part must come back intact
            "snd\\bgm/track.bin", "a\\b\\c/d.bin", "x/y\\z/w.bin"];
        for game in GAMES { for lang in LANGS { for p in paths {
            let show = || format!("{:?} {:?} {:?}", game, lang, p);
            match no_panic(|| localizer(game).localize(p, &lang)) {
                Err(e) => { check(false, "C14.localize_never_panics", || format!("{} -> {}", show(), e)); }
                Ok(r) => match (r, expected(game, lang, p)) {
                    (Ok(got), Some(want)) => { check(got == want, "C14.directory_marker_final_component", || format!("{} -> {:?} expected {:?}", show(), got, want)); }
                    (Err(e), None) => { check(matches!(e, LocalizationError::UnsupportedLanguage), "C14.unsupported_pair_is_reported", || format!("{} -> {:?}", show(), e)); }
                    (Ok(got), None) => { check(false, "C14.unsupported_pair_is_reported", || format!("{} -> Ok({:?})", show(), got)); }
                    (Err(e), Some(_)) => { check(false, "C14.supported_pair_is_localised", || format!("{} -> {:?}", show(), e)); }
                }
            }
        } } }
        for game in GAMES { for p in ["", "/", ".."] {
            let r = no_panic(|| localizer(game).localize(p, &Language::EnglishNA));
            check(matches!(r, Ok(Err(_))), "C14.path_without_final_component_is_an_error", || format!("{:?} {:?} -> {:?}", game, p, r.map(|x| x.map_err(|e| format!("{:?}", e)))));
        } }
    }

    fn snapshot(dir: &Path) -> BTreeMap<String, Option<Vec<u8>>> {
        let mut out = BTreeMap::new();
        fn walk(base: &Path, d: &Path, out: &mut BTreeMap<String, Option<Vec<u8>>>) {
            if let Ok(rd) = std::fs::read_dir(d) { for e in rd.flatten() { let p = e.path(); let rel = p.strip_prefix(base).unwrap().to_string_lossy().replace('\\', "/");
                if p.is_dir() { out.insert(rel, None); walk(base, &p, out); } else { out.insert(rel, std::fs::read(&p).ok()); } } }
        }
        walk(dir, dir, &mut out); out
    }
    fn put(dir: &Path, rel: &str, bytes: &[u8]) { let p = dir.join(rel); std::fs::create_dir_all(p.parent().unwrap()).unwrap(); std::fs::write(p, bytes).unwrap(); }

    /// every game x every language: the filesystem built for that pair localizes exactly like the game's localizer
    /// (same results, same errors, for every language asked of the handed-out localizer), and a localized write lands
    /// where the marker table says
    fn check_fs_every_language() {
        let probe = ["Mess/common.m", "m/GameData.bin", "m", "a/b/c.bin", "", ".."];
        for game in GAMES { for lang in LANGS {
            let dir = tempfile::tempdir().unwrap();
            let fs = match LayeredFilesystem::new(vec![dir.path().to_string_lossy().to_string()], lang, game) { Ok(fs) => fs,
                Err(e) => { check(false, "C14.filesystem_applies_the_same_mapping", || format!("{:?} {:?}: new -> {:?}", game, lang, e)); continue; } };
            let show = |s: &str| format!("{:?} filesystem built for {:?}: {}", game, lang, s);
            for l in LANGS { for p in probe {
                let via_fs = no_panic(|| fs.localizer().localize(p, &l).map_err(|e| format!("{:?}", e)));
                let direct = no_panic(|| localizer(game).localize(p, &l).map_err(|e| format!("{:?}", e)));
                check(via_fs == direct, "C14.filesystem_applies_the_same_mapping", || show(&format!("localizer().localize({:?}, {:?}) = {:?}, the game's localizer gives {:?}", p, l, via_fs, direct)));
            } }
            for p in ["Mess/common.m", "m/x.bin"] {
                match expected(game, lang, p) {
                    Some(on_disk) => {
                        let w = no_panic(|| fs.write(p, b"localized", true));
                        if check(matches!(w, Ok(Ok(()))), "C14.filesystem_applies_the_same_mapping", || show(&format!("localized write of {} -> {:?}", p, w.as_ref().map(|r| r.as_ref().map_err(|e| format!("{:?}", e)))))) {
                            check(std::fs::read(dir.path().join(&on_disk)).ok().as_deref() == Some(&b"localized"[..]), "C14.filesystem_applies_the_same_mapping", || show(&format!("{} expected on disk at {}", p, on_disk)));
                            check(fs.read(p, true).ok().as_deref() == Some(&b"localized"[..]), "C14.localized_write_and_existence_check_address_the_same_location", || show(p));
                            check(fs.file_exists(p, true).unwrap_or(false) && fs.exists(p, true).unwrap_or(false), "C14.localized_write_and_existence_check_address_the_same_location", || show(p));
                        }
                    }
                    None => {
                        let w = no_panic(|| fs.write(p, b"localized", true));
                        check(matches!(w, Ok(Err(_))), "C14.unsupported_pair_is_reported", || show(&format!("localized write of {} for an unsupported language must fail", p)));
                    }
                }
            }
            for p in ["", ".."] {
                let r = no_panic(|| fs.read(p, true).map(|_| ()));
                check(matches!(r, Ok(Err(_))), "C14.path_without_final_component_is_an_error", || show(&format!("localized read of {:?}", p)));
            }
        } }
    }

    fn check_fs() {
        for game in GAMES {
            let lang = if matches!(game, Game::FE9) { Language::Spanish } else { Language::EnglishNA };
            for nlayers in 1..=3usize {
                let dirs: Vec<tempfile::TempDir> = (0..nlayers).map(|_| tempfile::tempdir().unwrap()).collect();
                let roots: Vec<&Path> = dirs.iter().map(|d| d.path()).collect();
                // a file in every non-empty subset of the layers, each copy with its own content
                for mask in 1..(1u32 << nlayers) { for l in 0..nlayers { if mask >> l & 1 == 1 { put(roots[l], &format!("data/f{}.bin", mask), format!("layer{}-mask{}", l, mask).as_bytes()); } } }
                for l in 0..nlayers { put(roots[l], &format!("only{}/deep/x.txt", l), b"x"); put(roots[l], "shared/dir/common.txt", format!("c{}", l).as_bytes()); put(roots[l], &format!("shared/l{}.dat", l), b"d"); }
                // names whose joined-path order differs from a depth-first walk: a directory beside siblings that extend its name
                put(roots[0], "order/a/x.txt", b"1"); put(roots[0], "order/a.txt", b"2"); put(roots[0], "order/a-b", b"3"); put(roots[0], "order/a b", b"4"); put(roots[0], "order/B", b"5");
                // a directory in the TOP layer named like a file of the bottom layer
                if nlayers >= 2 { put(roots[0], "shadow/person.bin", b"the file"); std::fs::create_dir_all(roots[nlayers - 1].join("shadow/person.bin")).unwrap(); }
                // a child that is a symlink to a directory is a child directory
                #[cfg(unix)]
                { std::fs::create_dir_all(roots[0].join("linked/Real")).unwrap(); std::os::unix::fs::symlink(roots[0].join("linked/Real"), roots[0].join("linked/Link")).unwrap(); }
                // layer roots as a caller may write them: absolute, with a trailing separator or a `.` / `dir/..` segment
                let decorate = |i: usize, r: &Path| -> String { let s = r.to_string_lossy().to_string(); match (i + nlayers) % 3 { 0 => s, 1 => format!("{}/", s), _ => format!("{}/data/..", s) } };
                let fs = match LayeredFilesystem::new(roots.iter().enumerate().map(|(i, r)| decorate(i, r)).collect(), lang, game) { Ok(f) => f, Err(e) => { check(false, "C12.filesystem_opens", || format!("{:?}: {:?}", game, e)); continue; } };
                let show = |what: &str| format!("{:?} {} layers: {}", game, nlayers, what);
                // ---- C12: top layer wins
                for mask in 1..(1u32 << nlayers) {
                    let top = (0..nlayers).rev().find(|l| mask >> l & 1 == 1).unwrap();
                    let p = format!("data/f{}.bin", mask);
                    match fs.read(&p, false) { Ok(b) => { check(b == format!("layer{}-mask{}", top, mask).as_bytes(), "C12.read_returns_highest_priority_layer", || show(&format!("{} -> {:?}", p, String::from_utf8_lossy(&b)))); }
                                               Err(e) => { check(false, "C12.read_returns_highest_priority_layer", || show(&format!("{} -> {:?}", p, e))); } }
                    check(fs.file_exists(&p, false).unwrap_or(false) && fs.exists(&p, false).unwrap_or(false) && !fs.directory_exists(&p, false).unwrap_or(true), "C12.existence_queries_search_top_down", || show(&p));
                    check(fs.resolve(&p, false).map(|r| r.starts_with(roots[top].canonicalize().unwrap()) || r.starts_with(roots[top])).unwrap_or(false), "C12.resolve_finds_the_top_copy", || show(&p));
                }
                check(fs.read("data/none.bin", false).is_err() && !fs.exists("data/none.bin", false).unwrap_or(true) && fs.resolve("data/none.bin", false).is_none(), "C12.missing_file_is_not_found", || show("data/none.bin"));
                check(fs.directory_exists("shared/dir", false).unwrap_or(false) && !fs.file_exists("shared/dir", false).unwrap_or(true), "C12.existence_queries_search_top_down", || show("shared/dir"));
                // ---- C13: listings
                let norm = |v: Vec<String>| -> Vec<String> { v.into_iter().map(|s| s.replace('\\', "/")).collect() };
                match fs.list("shared", None, false) {
                    Ok(l) => { let l = norm(l);
                        let mut want: BTreeSet<String> = vec!["shared/dir".to_string(), "shared/dir/common.txt".to_string()].into_iter().collect();
                        for k in 0..nlayers { want.insert(format!("shared/l{}.dat", k)); }
                        check(l == want.iter().cloned().collect::<Vec<_>>(), "C13.listing_is_sorted_deduplicated_union", || show(&format!("list(shared) = {:?}", l)));
                        check(l.iter().all(|p| fs.exists(p, false).unwrap_or(false)), "C13.every_listed_path_exists", || show(&format!("{:?}", l))); }
                    Err(e) => { check(false, "C13.listing_is_sorted_deduplicated_union", || show(&format!("{:?}", e))); }
                }
                match fs.list("order", None, false) { Ok(l) => { let l = norm(l); let mut want = l.clone(); want.sort(); want.dedup();
                        check(l == want && l.len() == 6, "C13.listing_is_in_ascending_order", || show(&format!("list(order) = {:?}", l))); }
                    Err(e) => { check(false, "C13.listing_is_in_ascending_order", || show(&format!("{:?}", e))); } }
                if nlayers >= 2 {
                    check(fs.read("shadow/person.bin", false).ok().as_deref() == Some(&b"the file"[..]), "C12.read_returns_highest_priority_layer_that_contains_the_file", || show("a directory of that name in the top layer"));
                    check(fs.file_exists("shadow/person.bin", false).unwrap_or(false), "C12.existence_queries_search_top_down", || show("shadow/person.bin"));
                }
                match fs.list("shared", Some("*.dat"), false) { Ok(l) => { check(norm(l) == (0..nlayers).map(|k| format!("shared/l{}.dat", k)).collect::<Vec<_>>(), "C13.pattern_listing", || show("list(shared, *.dat)")); }
                    Err(e) => { check(false, "C13.pattern_listing", || show(&format!("{:?}", e))); } }
                match fs.subdirectories("", false) { Ok(l) => { let mut want: Vec<String> = vec!["data".into(), "shared".into(), "order".into()]; if cfg!(unix) { want.push("linked".into()); } if nlayers >= 2 { want.push("shadow".into()); } for k in 0..nlayers { want.push(format!("only{}", k)); } want.sort();
                        check(norm(l.clone()) == want, "C13.subdirectories_are_the_immediate_child_directories", || show(&format!("{:?}", l))); }
                    Err(e) => { check(false, "C13.subdirectories_are_the_immediate_child_directories", || show(&format!("{:?}", e))); } }
                #[cfg(unix)]
                { let l = fs.subdirectories("linked", false).map(norm); check(l.as_ref().ok() == Some(&vec!["linked/Link".to_string(), "linked/Real".to_string()]), "C13.subdirectories_are_the_immediate_child_directories", || show(&format!("subdirectories(linked) = {:?}", l))); }
                check(matches!(fs.list("nowhere", None, false), Ok(ref l) if l.is_empty()) && matches!(fs.subdirectories("nowhere", false), Ok(ref l) if l.is_empty()), "C13.absent_directory_lists_as_empty", || show("nowhere"));
                // ---- C12: writes stay on top, read-after-write, compressed suffix
                let before: Vec<_> = roots.iter().map(|r| snapshot(r)).collect();
                let suffix = if matches!(game, Game::FE9 | Game::FE10) { "cmp" } else { "lz" };
                let body: Vec<u8> = (0..300).map(|i| (i % 7) as u8).collect();
                let writes = [("new/plain.bin".to_string(), false), (format!("new/packed.bin.{}", suffix), false), ("data/f1.bin".to_string(), false), ("Mess/common.m".to_string(), true), (format!("m/GameData.bin.{}", suffix), true)];
                for (p, localized) in &writes {
                    match no_panic(|| fs.write(p, &body, *localized)) { Ok(Ok(())) => {}, other => { check(false, "C12.write_succeeds", || show(&format!("{} -> {:?}", p, other.map(|r| r.map_err(|e| format!("{:?}", e)))))); continue; } }
                    match fs.read(p, *localized) { Ok(b) => { check(b == body, "C12.read_after_write_returns_the_written_bytes", || show(p)); } Err(e) => { check(false, "C12.read_after_write_returns_the_written_bytes", || show(&format!("{} -> {:?}", p, e))); } }
                    check(fs.file_exists(p, *localized).unwrap_or(false), "C14.localized_write_and_existence_check_address_the_same_location", || show(p));
                    // where did it land?
                    let on_disk = if *localized { expected(game, lang, p).unwrap() } else { p.clone() };
                    let stored = std::fs::read(roots[nlayers - 1].join(&on_disk));
                    check(stored.is_ok(), if *localized { "C14.filesystem_applies_the_same_mapping" } else { "C12.write_targets_the_highest_priority_layer" }, || show(&format!("{} expected on disk at {}", p, on_disk)));
                    if let Ok(stored) = stored {
                        if p.ends_with(suffix) {
                            let cf = if suffix == "lz" { crate::CompressionFormat::LZ13(crate::LZ13CompressionFormat {}) } else { crate::CompressionFormat::LZ10(crate::LZ10CompressionFormat {}) };
                            check(stored != body && cf.decompress(&stored).ok().as_ref() == Some(&body) && stored[0] == if suffix == "lz" { 0x13 } else { 0x10 }, "C12.compressed_suffix_stores_a_valid_compressed_stream_of_the_games_format", || show(p));
                        } else { check(stored == body, "C12.plain_file_is_stored_as_is", || show(p)); }
                    }
                    if *localized { if let Ok(l) = fs.list(&split(p).0, None, true) { let want_dir = expected(game, lang, &split(p).0).unwrap();
                        check(fs.list(want_dir.trim_end_matches('/'), None, false).ok() == Some(l.clone()) || fs.list(&want_dir, None, false).ok() == Some(l), "C13.localized_listing_equals_unlocalized_listing_of_localized_directory", || show(p)); } }
                }
                // overwriting with a SHORTER payload replaces the file (no stale tail), plain and compressed
                for p in ["new/plain.bin".to_string(), format!("new/packed.bin.{}", suffix)] {
                    let short: Vec<u8> = vec![9, 8, 7];
                    if fs.write(&p, &short, false).is_ok() {
                        check(fs.read(&p, false).ok().as_ref() == Some(&short), "C12.read_after_write_returns_the_written_bytes", || show(&format!("{} overwritten with a shorter payload", p)));
                        let stored = std::fs::read(roots[nlayers - 1].join(&p)).unwrap_or_default();
                        let cf = if suffix == "lz" { crate::CompressionFormat::LZ13(crate::LZ13CompressionFormat {}) } else { crate::CompressionFormat::LZ10(crate::LZ10CompressionFormat {}) };
                        let want = if p.ends_with(suffix) { cf.compress(&short).unwrap() } else { short.clone() };
                        check(stored == want, "C12.write_replaces_the_file", || show(&format!("{} stored {} expected {}", p, hex(&stored), hex(&want))));
                    } else { check(false, "C12.write_succeeds", || show(&p)); }
                }
                for l in 0..nlayers - 1 { check(snapshot(roots[l]) == before[l], "C12.lower_layers_are_never_modified", || show(&format!("layer {}", l))); }
                // a write whose bytes EQUAL what a lower layer already holds still lands in the top layer: "unchanged, skip" decided
                // through the merged read would leave the top layer without the file (round-5 seed C12-5)
                if nlayers >= 2 {
                    let cf = if suffix == "lz" { crate::CompressionFormat::LZ13(crate::LZ13CompressionFormat {}) } else { crate::CompressionFormat::LZ10(crate::LZ10CompressionFormat {}) };
                    let same: Vec<u8> = (0..200).map(|i| (i % 5) as u8).collect();
                    let packed = format!("same/packed.bin.{}", suffix);
                    put(roots[0], "same/plain.bin", &same); put(roots[0], &packed, &cf.compress(&same).unwrap());
                    for p in ["same/plain.bin".to_string(), packed, "only0/deep/x.txt".to_string()] {
                        let payload = if p.starts_with("only0") { b"x".to_vec() } else { same.clone() };
                        if !check(fs.read(&p, false).ok().as_ref() == Some(&payload), "C12.read_returns_highest_priority_layer", || show(&format!("{} (lower layer only)", p))) { continue; }
                        match no_panic(|| fs.write(&p, &payload, false)) { Ok(Ok(())) => {}, other => { check(false, "C12.write_succeeds", || show(&format!("{} -> {:?}", p, other.map(|r| r.map_err(|e| format!("{:?}", e)))))); continue; } }
                        check(std::fs::read(roots[nlayers - 1].join(&p)).is_ok(), "C12.write_targets_the_highest_priority_layer", || show(&format!("{}: payload equal to the copy a lower layer holds", p)));
                        check(fs.resolve(&p, false).map(|r| r.starts_with(roots[nlayers - 1].canonicalize().unwrap()) || r.starts_with(roots[nlayers - 1])).unwrap_or(false), "C12.resolve_finds_the_top_copy", || show(&format!("{} after a write equal to the lower copy", p)));
                        check(fs.read(&p, false).ok().as_ref() == Some(&payload), "C12.read_after_write_returns_the_written_bytes", || show(&p));
                    }
                }
                // a write the TOP layer cannot take (a regular file sits where a directory is needed) is an error; it must not
                // land in a lower layer instead
                if nlayers >= 2 {
                    put(roots[nlayers - 1], "blocked", b"i am a file");
                    put(roots[0], "blocked/inner.bin", b"lower copy");
                    let lower_before: Vec<_> = (0..nlayers - 1).map(|l| snapshot(roots[l])).collect();
                    let r = no_panic(|| fs.write("blocked/inner.bin", b"new", false).is_ok());
                    check(matches!(r, Ok(false)), "C12.write_targets_the_highest_priority_layer_only", || show(&format!("write under a file of the top layer -> {:?}", r)));
                    for l in 0..nlayers - 1 { check(snapshot(roots[l]) == lower_before[l], "C12.lower_layers_are_never_modified", || show(&format!("layer {} after a write the top layer rejected", l))); }
                    std::fs::remove_file(roots[nlayers - 1].join("blocked")).ok();
                }
                // every supported language: the localized listing is the listing of the localized directory, not of its parent
                for l in LANGS { if let Some(ldir) = expected(game, l, "Loc") {
                    if let Ok(fsl) = LayeredFilesystem::new(roots.iter().map(|r| r.to_string_lossy().to_string()).collect(), l, game) {
                        put(roots[nlayers - 1], "Loc/parent_only.txt", b"p");
                        put(roots[nlayers - 1], &format!("{}/in_{:?}.txt", ldir.trim_end_matches('/'), l), b"l");
                        let got = fsl.list("Loc", None, true).map(norm);
                        let want = fsl.list(ldir.trim_end_matches('/'), None, false).map(norm);
                        check(got.is_ok() && got.as_ref().ok() == want.as_ref().ok(), "C13.localized_listing_equals_unlocalized_listing_of_localized_directory", || show(&format!("{:?}: list(Loc, localized) = {:?}, list({}) = {:?}", l, got, ldir, want)));
                        let gs = fsl.subdirectories("Loc", true).map(norm); let ws = fsl.subdirectories(ldir.trim_end_matches('/'), false).map(norm);
                        check(gs.is_ok() && gs.as_ref().ok() == ws.as_ref().ok(), "C13.localized_listing_equals_unlocalized_listing_of_localized_directory", || show(&format!("{:?}: subdirectories", l)));
                    }
                } }
                // ---- C12: typed helpers use the codec configured for the game
                let big = matches!(game, Game::FE9 | Game::FE10);
                check(matches!(fs.endian(), Endian::Big) == big && matches!(fs.text_archive_format(), TextArchiveFormat::ShiftJIS) == big, "C12.codec_configured_for_the_game", || show("endian / text format"));
                let mut a = BinArchive::new(fs.endian()); a.allocate_at_end(8); a.write_u32(0, 0x01020304).unwrap(); a.write_label(4, "L").unwrap();
                let ap = format!("typed/archive.bin.{}", suffix);
                if check(fs.write_archive(&ap, &a, false).is_ok(), "C12.typed_write_is_byte_write_of_the_serialized_form", || show(&ap)) {
                    check(fs.read(&ap, false).ok() == a.serialize().ok(), "C12.typed_write_is_byte_write_of_the_serialized_form", || show(&ap));
                    check(fs.read_archive(&ap, false).map(|b| b.read_u32(0).ok() == Some(0x01020304) && b.find_label_address("L") == Some(4)).unwrap_or(false), "C12.typed_read_is_byte_read_plus_the_games_codec", || show(&ap));
                    let wrong = if big { Endian::Little } else { Endian::Big };
                    check(BinArchive::from_bytes(&fs.read(&ap, false).unwrap(), wrong).map(|b| b.read_u32(0).ok() != Some(0x01020304)).unwrap_or(true), "C12.typed_read_is_byte_read_plus_the_games_codec", || show("other endian"));
                }
                let mut t = TextArchive::new(fs.text_archive_format(), fs.endian()); t.set_message("K", "hello");
                if check(fs.write_text_archive("typed/text.bin", &t, false).is_ok(), "C12.typed_write_is_byte_write_of_the_serialized_form", || show("text")) {
                    check(fs.read_text_archive("typed/text.bin", false).map(|r| r.get_message("K") == Some("hello".to_string())).unwrap_or(false), "C12.typed_read_is_byte_read_plus_the_games_codec", || show("text"));
                }
                // the localizer the filesystem uses is the game's own
                for l in LANGS { let via_fs = fs.localizer().localize("Mess/common.m", &l).ok(); check(via_fs == expected(game, l, "Mess/common.m"), "C14.filesystem_applies_the_same_mapping", || show(&format!("{:?} -> {:?}", l, via_fs))); }
            }
        }
    }

    #[test]
    fn run() {
        check_localize();
        check_fs();
        check_fs_every_language();
        finish("native_fs");
    }
}
