// C01 / C02 / C03 companion (bounded): BinArchive against a reference model written from the property
// statements.  Only the public API is used, so the harness follows any refactor of the internals.
#[cfg(test)]
mod __verif_native_bin {
    use crate::{BinArchive, Endian};
    use std::collections::BTreeMap as Map;
    include!("__verif_native_common.rs");

    #[derive(Clone, Debug, PartialEq)]
    struct M { data: Vec<u8>, text: Map<usize, String>, ptr: Map<usize, usize>, labels: Map<usize, Vec<String>>, cstr: Map<usize, String>, big: bool }

    impl M {
        fn build(&self) -> BinArchive { self.build_order(false) }
        /// the same content through the public API, optionally with every group of calls reversed
        fn build_order(&self, rev: bool) -> BinArchive {
            let mut a = BinArchive::new(if self.big { Endian::Big } else { Endian::Little });
            a.allocate_at_end(self.data.len());
            if !self.data.is_empty() { a.write_bytes(0, &self.data).unwrap(); }
            let mut calls: Vec<Box<dyn Fn(&mut BinArchive)>> = Vec::new();
            for (k, s) in &self.text { let (k, s) = (*k, s.clone()); calls.push(Box::new(move |a| a.write_string(k, Some(&s)).unwrap())); }
            for (k, d) in &self.ptr { let (k, d) = (*k, *d); calls.push(Box::new(move |a| a.write_pointer(k, Some(d)).unwrap())); }
            for (k, c) in &self.cstr { let (k, c) = (*k, c.clone()); calls.push(Box::new(move |a| a.write_c_string(k, c.clone()).unwrap())); }
            // labels of one address keep their relative order (it is content); addresses may be visited in any order
            let mut lab: Vec<(usize, Vec<String>)> = self.labels.iter().map(|(k, v)| (*k, v.clone())).collect();
            if rev { calls.reverse(); lab.reverse(); }
            for c in &calls { c(&mut a); }
            for (k, v) in lab { for l in v { a.write_label(k, &l).unwrap(); } }
            a
        }
        fn size(&self) -> usize { self.data.len() }
        // ---- C03 reference semantics -----------------------------------------------------------
        fn allocate(&mut self, a: usize, n: usize, ge: bool) -> bool {
            if a > self.size() || a % 4 != 0 || n % 4 != 0 { return false; }
            let cell = |k: usize| if k >= a { k + n } else { k };
            let tgt = |t: usize| if t > a || (ge && t >= a) { t + n } else { t };
            let tail = self.data.split_off(a); self.data.extend(std::iter::repeat(0).take(n)); self.data.extend(tail);
            self.text = self.text.iter().map(|(k, v)| (cell(*k), v.clone())).collect();
            self.ptr = self.ptr.iter().map(|(k, v)| (cell(*k), tgt(*v))).collect();
            self.labels = self.labels.iter().map(|(k, v)| (tgt(*k), v.clone())).collect();
            self.cstr = self.cstr.iter().map(|(k, v)| (cell(*k), v.clone())).collect();
            true
        }
        fn deallocate(&mut self, a: usize, n: usize, ge: bool) -> bool {
            if a >= self.size() || n > self.size() - a || a % 4 != 0 || n % 4 != 0 { return false; }
            let inr = |k: usize| a <= k && k < a + n;
            let cell = |k: usize| if k >= a { k - n } else { k };
            let tgt = |t: usize| if t > a || (ge && t >= a) { t - n } else { t };
            self.data.drain(a..a + n);
            self.text = self.text.iter().filter(|(k, _)| !inr(**k)).map(|(k, v)| (cell(*k), v.clone())).collect();
            self.ptr = self.ptr.iter().filter(|(k, v)| !inr(**k) && !inr(**v)).map(|(k, v)| (cell(*k), tgt(*v))).collect();
            self.labels = self.labels.iter().filter(|(k, _)| !inr(**k)).map(|(k, v)| (tgt(*k), v.clone())).collect();
            self.cstr = self.cstr.iter().filter(|(k, _)| !inr(**k)).map(|(k, v)| (cell(*k), v.clone())).collect();
            true
        }
        fn truncate(&mut self, cut: usize) {
            if cut >= self.size() { return; }
            self.data.truncate(cut);
            self.text.retain(|k, _| *k < cut); self.ptr.retain(|k, _| *k < cut); self.labels.retain(|k, _| *k < cut); self.cstr.retain(|k, _| *k < cut);
        }
    }

    /// everything the public API shows about an archive (c-strings excepted: they only exist after serialize)
    #[derive(Debug, PartialEq)]
    struct Obs { size: usize, bytes: Vec<u8>, text: Map<usize, String>, ptr: Map<usize, usize>, labels: Map<usize, Vec<String>> }
    fn observe(a: &BinArchive) -> Obs {
        let size = a.size();
        let bytes = if size > 0 { a.read_bytes(0, size).unwrap().to_vec() } else { vec![] };
        let (mut text, mut ptr, mut labels) = (Map::new(), Map::new(), Map::new());
        let mut k = 0;
        while k + 4 <= size { if let Ok(Some(s)) = a.read_string(k) { text.insert(k, s); } if let Ok(Some(p)) = a.read_pointer(k) { ptr.insert(k, p); }
            if let Ok(Some(l)) = a.read_labels(k) { if !l.is_empty() { labels.insert(k, l); } } k += 4; }
        for (addr, name) in a.all_labels() { if addr + 4 > size { labels.entry(addr).or_insert_with(Vec::new).push(name); } }
        Obs { size, bytes, text, ptr, labels }
    }
    fn observe_model(m: &M) -> Obs {
        let labels = m.labels.iter().filter(|(_, v)| !v.is_empty()).map(|(k, v)| (*k, v.clone())).collect();
        Obs { size: m.size(), bytes: m.data.clone(), text: m.text.clone(), ptr: m.ptr.clone(), labels }
    }
    /// "the same raw bytes (where it holds no pointer)": blank the cells that hold a pointer, string or c-string
    fn mask(mut o: Obs, m: &M) -> Obs {
        for k in m.text.keys().chain(m.ptr.keys()).chain(m.cstr.keys()) { for i in *k..(*k + 4).min(o.bytes.len()) { o.bytes[i] = 0; } }
        o
    }

    // ---- reference parser / writer of the file image (C01, C02) ---------------------------------
    fn rd32(b: &[u8], o: usize, big: bool) -> usize { let x = [b[o], b[o + 1], b[o + 2], b[o + 3]]; (if big { u32::from_be_bytes(x) } else { u32::from_le_bytes(x) }) as usize }
    fn wr32(b: &mut Vec<u8>, o: usize, v: usize, big: bool) { let x = if big { (v as u32).to_be_bytes() } else { (v as u32).to_le_bytes() }; b[o..o + 4].copy_from_slice(&x); }
    fn cstr_at(b: &[u8], o: usize) -> Option<String> { let e = b[o.min(b.len())..].iter().position(|c| *c == 0)?; String::from_utf8(b[o..o + e].to_vec()).ok() }
    /// independent reader: -> content (c-strings materialised as (cell -> text)), or a reason why the image is malformed
    fn ref_parse(b: &[u8], big: bool) -> Result<M, String> {
        if b.len() < 0x20 { return Err("short".into()); }
        if rd32(b, 0, big) != b.len() { return Err(format!("file size field {} != {}", rd32(b, 0, big), b.len())); }
        let (ds, pc, lc) = (rd32(b, 4, big), rd32(b, 8, big), rd32(b, 12, big));
        let ts = 0x20 + ds + 4 * pc + 8 * lc;
        if ts > b.len() { return Err("tables outside the file".into()); }
        let data = b[0x20..0x20 + ds].to_vec();
        let mut m = M { data: data.clone(), text: Map::new(), ptr: Map::new(), labels: Map::new(), cstr: Map::new(), big };
        for j in 0..pc {
            let pa = rd32(b, 0x20 + ds + 4 * j, big);
            if pa + 4 > ds { return Err(format!("pointer cell {:#x} outside the data region", pa)); }
            let v = rd32(&data, pa, big);
            if v > ds { if v + 0x20 < ts || v + 0x20 >= b.len() { return Err(format!("string pointer {:#x} outside the text section", v)); }
                        m.text.insert(pa, cstr_at(b, v + 0x20).ok_or("unterminated string")?); }
            else { m.ptr.insert(pa, v); }
        }
        for j in 0..lc {
            let (addr, off) = (rd32(b, 0x20 + ds + 4 * pc + 8 * j, big), rd32(b, 0x20 + ds + 4 * pc + 8 * j + 4, big));
            if addr > ds { return Err("label outside the data region".into()); }
            if ts + off >= b.len() { return Err("label name outside the file".into()); }
            m.labels.entry(addr).or_insert_with(Vec::new).push(cstr_at(b, ts + off).ok_or("unterminated label")?);
        }
        Ok(m)
    }
    /// the canonical image of a content without c-strings, written from C02's statement
    fn ref_write(m: &M) -> Vec<u8> {
        let big = m.big;
        let mut text_sec: Vec<u8> = Vec::new();
        let mut offs: Map<String, usize> = Map::new();
        let mut add = |s: &String, text_sec: &mut Vec<u8>| -> usize { if let Some(o) = offs.get(s) { return *o; } let o = text_sec.len(); text_sec.extend_from_slice(s.as_bytes()); text_sec.push(0); offs.insert(s.clone(), o); o };
        let mut lab: Vec<(usize, Vec<String>)> = m.labels.iter().filter(|(_, v)| !v.is_empty()).map(|(k, v)| (*k, v.clone())).collect();
        if big { lab.sort_by(|a, b| a.1.cmp(&b.1).then(a.0.cmp(&b.0))); }
        let mut ltab: Vec<(usize, usize)> = Vec::new();
        for (addr, names) in &lab { for n in names { let o = add(n, &mut text_sec); ltab.push((*addr, o)); } }
        let mut groups: Vec<(usize, Vec<usize>)> = Vec::new();     // string offset -> cells, in first-use order
        for (addr, s) in &m.text { let o = add(s, &mut text_sec); match groups.iter_mut().find(|g| g.0 == o) { Some(g) => g.1.push(*addr), None => groups.push((o, vec![*addr])) } }
        let pcount = m.ptr.len() + m.text.len();
        let ts = m.data.len() + 4 * pcount + 8 * ltab.len();
        let mut data = m.data.clone();
        for (k, v) in &m.ptr { wr32(&mut data, *k, *v, big); }
        for (o, cells) in &groups { for c in cells { wr32(&mut data, *c, ts + o, big); } }
        let total = 0x20 + ts + text_sec.len();
        let mut out = vec![0u8; 0x20];
        wr32(&mut out, 0, total, big); wr32(&mut out, 4, m.data.len(), big); wr32(&mut out, 8, pcount, big); wr32(&mut out, 12, ltab.len(), big);
        out.extend_from_slice(&data);
        let push32 = |out: &mut Vec<u8>, v: usize| { let o = out.len(); out.extend_from_slice(&[0; 4]); wr32(out, o, v, big); };
        for k in m.ptr.keys() { push32(&mut out, *k); }
        for (_, cells) in &groups { let mut c = cells.clone(); c.sort(); for x in c { push32(&mut out, x); } }
        for (a, o) in &ltab { push32(&mut out, *a); push32(&mut out, *o); }
        out.extend_from_slice(&text_sec);
        out
    }

    fn worlds() -> Vec<M> {
        let cells = [0usize, 4, 8, 12];
        let data: Vec<u8> = (0..16).map(|i| (i * 7 + 1) as u8).collect();
        let base = |big: bool| M { data: data.clone(), text: Map::new(), ptr: Map::new(), labels: Map::new(), cstr: Map::new(), big };
        let mut ptr_cfgs: Vec<Vec<(usize, usize)>> = vec![vec![]];
        for s in cells { for d in [0usize, 4, 8, 12, 16] { ptr_cfgs.push(vec![(s, d)]); } }
        for p in [[(0usize, 8usize), (8, 0)], [(4, 12), (12, 4)], [(0, 4), (4, 4)], [(8, 16), (12, 16)], [(0, 12), (8, 12)]] { ptr_cfgs.push(p.to_vec()); }
        let lab_cfgs: Vec<Vec<(usize, &str)>> = vec![vec![], vec![(0, "L0")], vec![(4, "L4")], vec![(8, "L8")], vec![(12, "LC")], vec![(16, "END")],
            vec![(4, "A"), (8, "B")], vec![(8, "X"), (8, "Y")], vec![(4, "same"), (12, "same")], vec![(0, "b"), (4, "a"), (8, "c")],
            vec![(8, "Zeta"), (8, "Alpha")], vec![(0, "Alpha"), (0, "Zulu"), (4, "Mike")], vec![(16, "Zed"), (16, "Abe"), (0, "Mid")]];
        let cs_cfgs: Vec<Vec<(usize, &str)>> = vec![vec![], vec![(0, "c0")], vec![(4, "c4")], vec![(8, "c8")], vec![(12, "cC")], vec![(4, "dup"), (12, "dup")], vec![(0, "p"), (8, "q")]];
        let mut v = Vec::new();
        for big in [false, true] {
            // strings x pointers (no cell carries both)
            for mask in 0..16u32 { for pc in &ptr_cfgs {
                let mut m = base(big);
                for (i, c) in cells.iter().enumerate() { if mask >> i & 1 == 1 { m.text.insert(*c, if i % 2 == 0 { format!("s{}", c) } else { "shared".to_string() }); } }
                if pc.iter().any(|(s, _)| m.text.contains_key(s)) { continue; }
                for (s, d) in pc { m.ptr.insert(*s, *d); }
                v.push(m);
            } }
            // labels x c-strings over a few string / pointer layouts
            for lc in &lab_cfgs { for cc in &cs_cfgs { for layout in 0..3 {
                let mut m = base(big);
                if layout >= 1 { m.text.insert(4, "s4".into()); m.text.insert(8, "shared".into()); }
                if layout == 2 { m.ptr.insert(12, 4); }
                for (k, n) in lc { m.labels.entry(*k).or_insert_with(Vec::new).push(n.to_string()); }
                if cc.iter().any(|(k, _)| m.text.contains_key(k) || m.ptr.contains_key(k)) { continue; }
                for (k, n) in cc { m.cstr.insert(*k, n.to_string()); }
                v.push(m);
            } } }
            // a data region whose size is not a multiple of 4 (allocate_at_end accepts any byte count): the trailing
            // partial cell at 16 and the end address 18 can carry labels
            for lc in [vec![(16usize, "P16")], vec![(18, "END18")], vec![(12, "L12"), (16, "P16"), (18, "END18")], vec![]] {
                let mut m = base(big);
                m.data.extend_from_slice(&[0xAA, 0xBB]);
                m.text.insert(12, "s12".into()); m.ptr.insert(4, 16);
                for (k, n) in lc { m.labels.entry(k).or_insert_with(Vec::new).push(n.to_string()); }
                v.push(m);
            }
        }
        v
    }

    #[derive(Clone, Copy, Debug)]
    enum Op { Alloc(usize, usize, bool), Dealloc(usize, usize, bool), Trunc(usize) }
    fn ops() -> Vec<Op> {
        let mut o = Vec::new();
        for a in [0usize, 4, 8, 12, 16, 20, 2, 6, usize::MAX - 3] { for n in [0usize, 4, 8, 3] { for ge in [false, true] { o.push(Op::Alloc(a, n, ge)); } } }
        for a in [0usize, 4, 8, 12, 16, 2] { for n in [0usize, 4, 8, 12, 16, 20, 2, usize::MAX - 3, usize::MAX - 7] { for ge in [false, true] { o.push(Op::Dealloc(a, n, ge)); } } }
        for c in [0usize, 4, 8, 12, 16, 20] { o.push(Op::Trunc(c)); }
        o
    }
    fn apply(a: &mut BinArchive, m: &mut M, op: Op) -> Result<(bool, bool), String> {
        no_panic(|| match op {
            Op::Alloc(x, n, ge) => (a.allocate(x, n, ge).is_ok(), m.allocate(x, n, ge)),
            Op::Dealloc(x, n, ge) => (a.deallocate(x, n, ge).is_ok(), m.deallocate(x, n, ge)),
            Op::Trunc(c) => { let r = a.truncate(c).is_ok(); m.truncate(c); (r, true) }
        })
    }
    /// c-strings become visible after serialize -> parse: every pending cell must read back its text
    fn cstrings_after_round_trip(a: &BinArchive, m: &M) -> Result<bool, String> {
        if m.cstr.is_empty() { return Ok(true); }
        let bytes = a.serialize().map_err(|e| format!("serialize: {:?}", e))?;
        let b = BinArchive::from_bytes(&bytes, if m.big { Endian::Big } else { Endian::Little }).map_err(|e| format!("re-parse: {:?}", e))?;
        let mut ok = true;
        let mut k = 0;
        while k + 4 <= m.size() {
            let got = b.read_c_string(k).ok().flatten();
            let is_ptr = b.read_pointer(k).ok().flatten().is_some();
            match m.cstr.get(&k) { Some(t) => ok &= got.as_ref() == Some(t), None => ok &= !(is_ptr && !m.ptr.contains_key(&k)) }
            k += 4;
        }
        Ok(ok)
    }

    #[test]
    fn run() {
        let ws = worlds();
        let os = ops();
        for (wi, w) in ws.iter().enumerate() {
            let show = |extra: &str| format!("world #{} {:?} {}", wi, w, extra);
            // ---------------- C01: serialize -> parse, image well-formed (reference reader)
            let a = match no_panic(|| w.build()) { Ok(a) => a, Err(p) => { check(false, "C01.content_is_accepted_by_the_accessors", || show(&format!("building it through the public API panicked: {}", p))); continue; } };
            match no_panic(|| a.serialize()) {
                Err(p) => { check(false, "C01.serialize_never_panics", || show(&format!("panic {}", p))); }
                Ok(Err(e)) => { check(false, "C01.serialize_succeeds", || show(&format!("{:?}", e))); }
                Ok(Ok(bytes)) => {
                    match ref_parse(&bytes, w.big) {
                        Err(e) => { check(false, "C01.image_is_well_formed", || show(&format!("image {} : {}", hex(&bytes), e))); }
                        Ok(r) => {
                            // content seen by an independent reader: c-string cells are pointers into the pool appended to the data
                            let mut ok = r.text == w.text && r.labels == w.labels.iter().filter(|(_, v)| !v.is_empty()).map(|(k, v)| (*k, v.clone())).collect::<Map<_, _>>();
                            for (k, v) in &w.ptr { ok &= r.ptr.get(k) == Some(v); }
                            for (k, t) in &w.cstr { ok &= match r.ptr.get(k) { Some(p) => *p >= w.size() && cstr_at(&r.data, *p).as_ref() == Some(t), None => false }; }
                            ok &= r.ptr.len() == w.ptr.len() + w.cstr.len();
                            for i in 0..w.size() { let in_ptr_cell = r.ptr.contains_key(&(i / 4 * 4)) || r.text.contains_key(&(i / 4 * 4)); if !in_ptr_cell { ok &= r.data[i] == w.data[i]; } }
                            check(ok, "C01.image_holds_the_content", || show(&format!("image {} read back as {:?}", hex(&bytes), r)));
                            check(r.data.len() % 4 == 0 || w.size() % 4 != 0, "C01.tables_word_aligned", || show(&hex(&bytes)));
                        }
                    }
                    match no_panic(|| BinArchive::from_bytes(&bytes, if w.big { Endian::Big } else { Endian::Little })) {
                        Ok(Ok(b)) => {
                            let (ob, om) = (observe(&b), observe_model(w));
                            if w.cstr.is_empty() { check(mask(observe(&b), w) == mask(observe_model(w), w), "C01.round_trip_same_archive", || show(&format!("re-parsed as {:?}", ob))); }
                            else {
                                let mut ok = ob.text == om.text && ob.labels == om.labels;
                                for (k, v) in &om.ptr { ok &= ob.ptr.get(k) == Some(v); }
                                for (k, t) in &w.cstr { ok &= b.read_c_string(*k).ok().flatten().as_ref() == Some(t); }
                                check(ok, "C01.round_trip_with_c_strings", || show(&format!("re-parsed as {:?}", ob)));
                            }
                            // C02: parse -> re-serialize reproduces the image byte for byte
                            if w.cstr.is_empty() { match no_panic(|| b.serialize()) { Ok(Ok(again)) => { check(again == bytes, "C02.reserialize_is_byte_stable", || show(&format!("{} vs {}", hex(&bytes), hex(&again)))); }
                                                    _ => { check(false, "C02.reserialize_is_byte_stable", || show("re-serialize failed")); } } }
                        }
                        _ => { check(false, "C01.own_image_is_accepted", || show(&hex(&bytes))); }
                    }
                    // ---------------- C02: canonical image, independent of call order
                    if w.cstr.is_empty() {
                        let canon = ref_write(w);
                        check(bytes == canon, "C02.image_is_canonical", || show(&format!("got {} want {}", hex(&bytes), hex(&canon))));
                    }
                    match no_panic(|| w.build_order(true).serialize()) {
                        Ok(Ok(other)) => { check(other == bytes, "C02.equal_content_equal_bytes", || show(&format!("{} vs {}", hex(&bytes), hex(&other)))); }
                        _ => { check(false, "C02.equal_content_equal_bytes", || show("serialize of the reordered build failed")); }
                    }
                }
            }
            // the reference image is a conforming file: the parser must recover the content from it too (any table order)
            if w.cstr.is_empty() {
                let canon = ref_write(w);
                match no_panic(|| BinArchive::from_bytes(&canon, if w.big { Endian::Big } else { Endian::Little })) {
                    Ok(Ok(b)) => { check(mask(observe(&b), w) == mask(observe_model(w), w), "C01.parser_recovers_content_of_conforming_file", || show(&hex(&canon))); }
                    _ => { check(false, "C01.parser_accepts_conforming_file", || show(&hex(&canon))); }
                }
                // ... "whatever the order of its pointer and label tables": every permutation of the label table is a conforming
                // file with the same content; the entries of one cell need not be adjacent (round-5 seed C01-7: a parser that
                // stores each RUN of equal addresses as one bucket loses the earlier run)
                let (d, p, l) = (rd32(&canon, 4, w.big), rd32(&canon, 8, w.big), rd32(&canon, 12, w.big));
                let lt = 0x20 + d + p * 4;
                if l >= 2 && lt + 8 * l <= canon.len() {
                    let mut orders: Vec<Vec<usize>> = vec![(0..l).rev().collect(), (1..l).chain(0..1).collect()];
                    if l >= 3 { let mut o: Vec<usize> = (0..l).collect(); o.swap(1, l - 1); orders.push(o); let mut o: Vec<usize> = (0..l).collect(); o.swap(0, 1); o.swap(1, 2); orders.push(o); }
                    let sorted_labels = |mut o: Obs| -> Obs { for v in o.labels.values_mut() { v.sort(); } o };
                    for order in orders {
                        let mut img = canon.clone();
                        for (k, src) in order.iter().enumerate() { let e = canon[lt + 8 * src..lt + 8 * src + 8].to_vec(); img[lt + 8 * k..lt + 8 * k + 8].copy_from_slice(&e); }
                        match no_panic(|| BinArchive::from_bytes(&img, if w.big { Endian::Big } else { Endian::Little })) {
                            Ok(Ok(b)) => { check(sorted_labels(mask(observe(&b), w)) == sorted_labels(mask(observe_model(w), w)), "C01.parser_recovers_content_whatever_the_order_of_the_label_table", || show(&format!("label table order {:?} of {}", order, hex(&canon)))); }
                            _ => { check(false, "C01.parser_accepts_conforming_file", || show(&format!("label table order {:?} of {}", order, hex(&canon)))); }
                        }
                    }
                }
            }
            // ---------------- C03: one operation, and two in a row on a thinner set
            for (oi, op) in os.iter().enumerate() {
                let (mut a, mut m) = (w.build(), w.clone());
                let show_op = |extra: &str| format!("world #{} {:?} then {:?} {}", wi, w, op, extra);
                match apply(&mut a, &mut m, *op) {
                    Err(p) => { check(false, "C03.request_never_panics", || show_op(&format!("panic {}", p))); continue; }
                    Ok((got, want)) => {
                        if !check(got == want, "C03.accepted_iff_aligned_and_in_range", || show_op(&format!("accepted {} expected {}", got, want))) { continue; }
                    }
                }
                let (oa, om) = (observe(&a), observe_model(&m));
                check(oa == om, "C03.state_after_operation_matches_rule", || show_op(&format!("got {:?} want {:?}", oa, om)));
                match cstrings_after_round_trip(&a, &m) {
                    Ok(ok) => { check(ok, "C03.pending_c_strings_relocated", || show_op("")); }
                    Err(e) => { check(false, "C03.state_after_operation_serializes", || show_op(&e)); }
                }
                if (thorough() && oi % 2 == 0) || (wi % 7 == 0 && oi % 3 == 0) {
                    for op2 in os.iter().step_by(if thorough() { 2 } else { 5 }) {
                        let (mut a2, mut m2) = (w.build(), w.clone());
                        if apply(&mut a2, &mut m2, *op).is_err() { continue; }
                        match apply(&mut a2, &mut m2, *op2) {
                            Err(p) => { check(false, "C03.request_never_panics", || show_op(&format!("then {:?}: panic {}", op2, p))); }
                            Ok((got, want)) => {
                                check(got == want && observe(&a2) == observe_model(&m2), "C03.state_after_two_operations_matches_rule", || show_op(&format!("then {:?}: got {:?} want {:?}", op2, observe(&a2), observe_model(&m2))));
                            }
                        }
                    }
                }
            }
        }
        finish("native_bin");
    }
}
