// C19 / C20 companion (bounded): pixel decoders and texture containers against reference decoders and
// reference container builders written from the format descriptions.
#[cfg(test)]
mod __verif_native_textures {
    use crate::{bch, cgfx, ctpk, tpl::Tpl};
    use crate::texture_decoder::decode_pixel_data;
    include!("__verif_native_common.rs");

    fn rnd(seed: &mut u32) -> u8 { *seed = seed.wrapping_mul(1664525).wrapping_add(1013904223); (*seed >> 24) as u8 }
    fn payload(n: usize, seed: u32) -> Vec<u8> { let mut s = seed; (0..n).map(|_| rnd(&mut s)).collect() }
    /// |got - linear expansion of a `bits`-wide source value| <= one quantisation step
    fn within(got: u8, src: u32, bits: u32) -> bool { let m = (1u32 << bits) - 1; let (a, b) = (got as u32 * m, src * 255); (if a > b { a - b } else { b - a }) <= 255 }
    fn morton(x: usize, y: usize) -> usize { (x & 1) | (y & 1) << 1 | (x & 2) << 1 | (y & 2) << 2 | (x & 4) << 2 | (y & 4) << 3 }
    fn bpp_num(format: u32) -> Option<usize> { match format { 0 => Some(8), 2 | 3 | 4 | 5 => Some(4), 7 | 8 | 13 => Some(2), 12 => Some(1), _ => None } }   // half-bytes per pixel
    fn payload_len(format: u32, w: usize, h: usize) -> usize { bpp_num(format).unwrap() * w * h / 2 }

    /// does `got` (4 bytes) agree with the source datum `v` of `format`?  channel layouts: PICA200
    fn pixel_ok(format: u32, v: u32, got: &[u8]) -> bool {
        match format {
            0 => got == [(v >> 24) as u8, (v >> 16) as u8, (v >> 8) as u8, v as u8],
            2 => within(got[0], (v >> 11) & 31, 5) && within(got[1], (v >> 6) & 31, 5) && within(got[2], (v >> 1) & 31, 5) && got[3] == if v & 1 == 1 { 255 } else { 0 },
            3 => within(got[0], (v >> 11) & 31, 5) && within(got[1], (v >> 5) & 63, 6) && within(got[2], v & 31, 5) && got[3] == 255,
            4 => within(got[0], (v >> 12) & 15, 4) && within(got[1], (v >> 8) & 15, 4) && within(got[2], (v >> 4) & 15, 4) && within(got[3], v & 15, 4),
            5 => got[0] == (v >> 8) as u8 && got[1] == got[0] && got[2] == got[0] && got[3] == v as u8,
            7 => got[0] == v as u8 && got[1] == got[0] && got[2] == got[0] && got[3] == 255,
            8 => got[3] == v as u8,
            _ => false,
        }
    }
    /// (x, y) -> index of its datum in the 8x8 Z-order tile layout
    fn datum_index(x: usize, y: usize, w: usize) -> usize { ((y / 8) * (w / 8) + x / 8) * 64 + morton(x % 8, y % 8) }

    const ETC_TABLE: [[i32; 2]; 8] = [[2, 8], [5, 17], [9, 29], [13, 42], [18, 60], [24, 80], [33, 106], [47, 183]];
    fn sext3(v: u64) -> i32 { if v & 4 != 0 { v as i32 - 8 } else { v as i32 } }
    /// published ETC1 rules; blocks are laid out per 8x8 tile as four 4x4 blocks (row-major), alpha word first
    fn etc1_ref(data: &[u8], w: usize, h: usize, alpha: bool) -> Option<Vec<u8>> {
        let mut out = vec![0u8; 4 * w * h];
        let mut pos = 0usize;
        let rd = |p: usize| -> u64 { let mut b = [0u8; 8]; b.copy_from_slice(&data[p..p + 8]); u64::from_le_bytes(b) };
        for ty in 0..h / 8 { for tx in 0..w / 8 { for by in 0..2 { for bx in 0..2 {
            let alphas = if alpha { let a = rd(pos); pos += 8; a } else { u64::MAX };
            let px = rd(pos); pos += 8;
            let (diff, flip) = ((px >> 33) & 1 == 1, (px >> 32) & 1 == 1);
            let (t1, t2) = (((px >> 37) & 7) as usize, ((px >> 34) & 7) as usize);
            let (c1, c2): ([i32; 3], [i32; 3]);
            if diff {
                let base = [((px >> 59) & 31) as i32, ((px >> 51) & 31) as i32, ((px >> 43) & 31) as i32];
                let second = [base[0] + sext3((px >> 56) & 7), base[1] + sext3((px >> 48) & 7), base[2] + sext3((px >> 40) & 7)];
                if second.iter().any(|c| *c < 0 || *c > 31) { return None; }        // outside the ETC1 specification: undefined
                let e5 = |c: i32| (c << 3) | (c >> 2);
                c1 = [e5(base[0]), e5(base[1]), e5(base[2])]; c2 = [e5(second[0]), e5(second[1]), e5(second[2])];
            } else {
                c1 = [(((px >> 60) & 15) * 17) as i32, (((px >> 52) & 15) * 17) as i32, (((px >> 44) & 15) * 17) as i32];
                c2 = [(((px >> 56) & 15) * 17) as i32, (((px >> 48) & 15) * 17) as i32, (((px >> 40) & 15) * 17) as i32];
            }
            for py in 0..4usize { for pxx in 0..4usize {
                let idx = pxx * 4 + py;
                let second = if flip { py >= 2 } else { pxx >= 2 };
                let (table, base) = if second { (t2, c2) } else { (t1, c1) };
                let mut m = ETC_TABLE[table][((px >> idx) & 1) as usize];
                if (px >> (16 + idx)) & 1 == 1 { m = -m; }
                let (x, y) = (tx * 8 + bx * 4 + pxx, ty * 8 + by * 4 + py);
                let o = (y * w + x) * 4;
                for c in 0..3 { out[o + c] = (base[c] + m).max(0).min(255) as u8; }
                out[o + 3] = (((alphas >> (idx * 4)) & 15) * 17) as u8;
            } }
        } } } }
        Some(out)
    }
    /// a payload whose differential blocks stay inside the specification (base + delta in 0..=31)
    fn etc_payload(w: usize, h: usize, alpha: bool, seed: u32, force: Option<(bool, bool)>) -> Vec<u8> {
        let blocks = (w / 4) * (h / 4);
        let mut s = seed; let mut out = Vec::new();
        for _ in 0..blocks {
            if alpha { for _ in 0..8 { out.push(rnd(&mut s)); } }
            let mut px = u64::from_le_bytes([rnd(&mut s), rnd(&mut s), rnd(&mut s), rnd(&mut s), rnd(&mut s), rnd(&mut s), rnd(&mut s), rnd(&mut s)]);
            if let Some((diff, flip)) = force { px = (px & !(3u64 << 32)) | (diff as u64) << 33 | (flip as u64) << 32; }
            if (px >> 33) & 1 == 1 {
                for (b, d) in [(59u32, 56u32), (51, 48), (43, 40)] {
                    let base = ((px >> b) & 31) as i32; let delta = sext3((px >> d) & 7);
                    if base + delta < 0 || base + delta > 31 { px &= !(7u64 << d); px |= (if base >= 16 { 7u64 } else { 1u64 }) << d; }   // -1 when high, +1 when low
                }
            }
            out.extend_from_slice(&px.to_le_bytes());
        }
        out
    }
    fn expected_ok(format: u32, w: usize, h: usize, data: &[u8], got: &[u8]) -> Result<(), String> {
        if got.len() != 4 * w * h { return Err(format!("{} output bytes, expected {}", got.len(), 4 * w * h)); }
        if format == 12 || format == 13 {
            let want = etc1_ref(data, w, h, format == 13).ok_or("payload outside the specification")?;
            for i in 0..w * h { if got[4 * i..4 * i + 4] != want[4 * i..4 * i + 4] { return Err(format!("pixel ({}, {}) = {:?}, ETC1 rules give {:?}", i % w, i / w, &got[4 * i..4 * i + 4], &want[4 * i..4 * i + 4])); } }
            return Ok(());
        }
        let bytes = bpp_num(format).unwrap() / 2;
        for y in 0..h { for x in 0..w {
            let d = datum_index(x, y, w) * bytes;
            let mut v = 0u32; for k in 0..bytes { v |= (data[d + k] as u32) << (8 * k); }
            let o = (y * w + x) * 4;
            if !pixel_ok(format, v, &got[o..o + 4]) { return Err(format!("pixel ({}, {}) = {:?} from datum #{} = {:#x}", x, y, &got[o..o + 4], d / bytes, v)); }
        } }
        Ok(())
    }

    struct Tex { name: &'static str, w: usize, h: usize, format: u32, data: Vec<u8> }
    fn p32(v: &mut Vec<u8>, x: usize) { v.extend_from_slice(&(x as u32).to_le_bytes()); }
    fn p16(v: &mut Vec<u8>, x: usize) { v.extend_from_slice(&(x as u16).to_le_bytes()); }
    fn set32(v: &mut Vec<u8>, at: usize, x: usize) { v[at..at + 4].copy_from_slice(&(x as u32).to_le_bytes()); }
    fn build_ctpk(t: &[Tex]) -> Vec<u8> {
        let n = t.len();
        let mut names: Vec<u8> = Vec::new(); let mut name_at = Vec::new();
        let info_end = 0x20 + 0x20 * n;
        for x in t { name_at.push(info_end + names.len()); names.extend_from_slice(x.name.as_bytes()); names.push(0); }
        while (info_end + names.len()) % 0x10 != 0 { names.push(0); }
        let tex_ptr = info_end + names.len();
        let mut f = Vec::new();
        p32(&mut f, 0x4B505443); p16(&mut f, 1); p16(&mut f, n); p32(&mut f, tex_ptr); p32(&mut f, t.iter().map(|x| x.data.len()).sum()); p32(&mut f, 0); p32(&mut f, 0); f.extend_from_slice(&[0; 8]);
        let mut off = 0;
        for (i, x) in t.iter().enumerate() { p32(&mut f, name_at[i]); p32(&mut f, x.data.len()); p32(&mut f, off); p32(&mut f, x.format as usize); p16(&mut f, x.w); p16(&mut f, x.h); f.extend_from_slice(&[1, 0, 0, 0]); p32(&mut f, 0); p32(&mut f, 0); off += x.data.len(); }
        f.extend_from_slice(&names);
        for x in t { f.extend_from_slice(&x.data); }
        f
    }
    fn build_bch(t: &[Tex]) -> Vec<u8> {
        let n = t.len();
        let mut f = vec![0u8; 0x44];                                   // header (backward compatibility 7: no raw-ext fields)
        let contents = f.len();
        f.extend_from_slice(&vec![0u8; 0x2C]);                          // content table: texture pointer table offset / count at +0x24
        let table_off = f.len() - contents;
        f.extend_from_slice(&vec![0u8; 4 * n]);
        let mut obj_at = Vec::new();
        for _ in t { obj_at.push(f.len() - contents); f.extend_from_slice(&vec![0u8; 0x20]); }
        let strings = f.len(); let mut name_off = Vec::new();
        for x in t { name_off.push(f.len() - strings); f.extend_from_slice(x.name.as_bytes()); f.push(0); }
        while f.len() % 4 != 0 { f.push(0); }
        let commands = f.len(); let mut cmd_off = Vec::new();
        for _ in t { cmd_off.push(f.len() - commands); f.extend_from_slice(&vec![0u8; 0x20]); }
        let raw = f.len(); let mut data_off = Vec::new();
        for x in t { data_off.push(f.len() - raw); f.extend_from_slice(&x.data); }
        f[0..4].copy_from_slice(&0x484342u32.to_le_bytes()); f[4] = 7;
        set32(&mut f, 8, contents); set32(&mut f, 12, strings); set32(&mut f, 16, commands); set32(&mut f, 20, raw);
        set32(&mut f, contents + 0x24, table_off); set32(&mut f, contents + 0x28, n);
        for i in 0..n {
            set32(&mut f, contents + table_off + 4 * i, obj_at[i]);
            set32(&mut f, contents + obj_at[i], cmd_off[i]); set32(&mut f, contents + obj_at[i] + 28, name_off[i]);
            let c = commands + cmd_off[i];
            f[c..c + 2].copy_from_slice(&(t[i].h as u16).to_le_bytes()); f[c + 2..c + 4].copy_from_slice(&(t[i].w as u16).to_le_bytes());
            set32(&mut f, c + 0x10, data_off[i]); set32(&mut f, c + 0x18, t[i].format as usize);
        }
        f
    }
    fn build_cgfx(t: &[Tex]) -> Vec<u8> {
        let n = t.len();
        let mut f = vec![0u8; 0x14];
        f[0..4].copy_from_slice(&0x58464743u32.to_le_bytes()); f[4..6].copy_from_slice(&0xFEFFu16.to_le_bytes()); f[6..8].copy_from_slice(&0x14u16.to_le_bytes());
        let data = f.len(); f.extend_from_slice(&vec![0u8; 8 + 16 * 8]);
        let dict = f.len(); f.extend_from_slice(&vec![0u8; 0x1C + 0x10 * n]);
        let mut txob = Vec::new(); for _ in t { txob.push(f.len()); f.extend_from_slice(&vec![0u8; 0x4C]); }
        let mut name_at = Vec::new(); for x in t { name_at.push(f.len()); f.extend_from_slice(x.name.as_bytes()); f.push(0); }
        while f.len() % 4 != 0 { f.push(0); }
        let mut data_at = Vec::new(); for x in t { data_at.push(f.len()); f.extend_from_slice(&x.data); }
        f[data..data + 4].copy_from_slice(b"DATA");
        let e1 = data + 8 + 8;                                          // DATA entry 1 = textures: (count, self-relative offset)
        set32(&mut f, e1, n); set32(&mut f, e1 + 4, dict - (e1 + 4));
        f[dict..dict + 4].copy_from_slice(b"DICT"); set32(&mut f, dict + 8, n);
        for i in 0..n {
            let e = dict + 0x1C + 0x10 * i;
            set32(&mut f, e + 8, name_at[i] - (e + 8)); set32(&mut f, e + 12, txob[i] - (e + 12));
            let o = txob[i];
            set32(&mut f, o, 0x20000011); f[o + 4..o + 8].copy_from_slice(b"TXOB"); set32(&mut f, o + 0xC, name_at[i] - (o + 0xC));
            set32(&mut f, o + 0x18, t[i].h); set32(&mut f, o + 0x1C, t[i].w); set32(&mut f, o + 0x28, 1); set32(&mut f, o + 0x34, t[i].format as usize);
            set32(&mut f, o + 0x44, t[i].data.len()); set32(&mut f, o + 0x48, data_at[i] - (o + 0x48));
        }
        let total = f.len(); set32(&mut f, 12, total);
        f
    }
    /// one CI8 image with a 256-entry RGB5A3 palette (big endian, absolute file pointers)
    fn build_tpl(w: usize, h: usize, indices: &[u8], palette: &[u16]) -> Vec<u8> {
        let b32 = |v: &mut Vec<u8>, x: usize| v.extend_from_slice(&(x as u32).to_be_bytes());
        let b16 = |v: &mut Vec<u8>, x: usize| v.extend_from_slice(&(x as u16).to_be_bytes());
        let mut f = Vec::new();
        b32(&mut f, 0x0020AF30); b32(&mut f, 1); b32(&mut f, 0x0C);
        let (img_hdr, pal_hdr) = (0x14, 0x14 + 0x24);
        b32(&mut f, img_hdr); b32(&mut f, pal_hdr);
        let pal_data = pal_hdr + 0x0C; let img_data = pal_data + 2 * palette.len();
        b16(&mut f, h); b16(&mut f, w); b32(&mut f, 9); b32(&mut f, img_data); for _ in 0..4 { b32(&mut f, 0); } b32(&mut f, 0); f.extend_from_slice(&[0, 0, 0, 0]);
        assert!(f.len() == pal_hdr);
        b16(&mut f, palette.len()); f.extend_from_slice(&[0, 0]); b32(&mut f, 2); b32(&mut f, pal_data);
        for p in palette { b16(&mut f, *p as usize); }
        f.extend_from_slice(indices);
        f
    }
    fn rgb5a3_ok(v: u16, got: &[u8]) -> bool {
        if v & 0x8000 != 0 { within(got[0], ((v >> 10) & 31) as u32, 5) && within(got[1], ((v >> 5) & 31) as u32, 5) && within(got[2], (v & 31) as u32, 5) && got[3] == 255 }
        else { within(got[3], ((v >> 12) & 7) as u32, 3) && within(got[0], ((v >> 8) & 15) as u32, 4) && within(got[1], ((v >> 4) & 15) as u32, 4) && within(got[2], (v & 15) as u32, 4) }
    }

    #[test]
    fn run() {
        let formats = [0u32, 2, 3, 4, 5, 7, 8, 12, 13];
        let dims = [(8usize, 8usize), (16, 8), (8, 16), (16, 16), (32, 8), (8, 32), (64, 32), (32, 64), (128, 128)];
        // ---------------- C19: decode_pixel_data, every listed format x power-of-two dimensions
        for &fmt in &formats { for &(w, h) in &dims { for seed in [1u32, 0xBEEF, 77777] {
            let variants: Vec<Vec<u8>> = if fmt >= 12 { vec![etc_payload(w, h, fmt == 13, seed, None), etc_payload(w, h, fmt == 13, seed, Some((true, false))), etc_payload(w, h, fmt == 13, seed, Some((true, true))), etc_payload(w, h, fmt == 13, seed, Some((false, true)))] }
                                           else { vec![payload(payload_len(fmt, w, h), seed), vec![0xFF; payload_len(fmt, w, h)], vec![0x00; payload_len(fmt, w, h)]] };
            for data in variants {
                let show = || format!("format {} {}x{} payload {}", fmt, w, h, hex(&data));
                match no_panic(|| decode_pixel_data(&data, w, h, fmt)) {
                    Err(p) => { check(false, "C19.decoding_never_panics_in_either_build_profile", || format!("{} -> {}", show(), p)); }
                    Ok(Err(e)) => { check(false, "C19.payload_of_exact_size_decodes", || format!("{} -> {:?}", show(), e)); }
                    Ok(Ok(got)) => { let r = expected_ok(fmt, w, h, &data, &got);
                        check(r.is_ok(), if fmt >= 12 { "C19.etc1_pixels_follow_the_published_rules_in_block_layout" } else { "C19.pixel_xy_comes_from_its_z_order_tile_position" }, || format!("{} : {}", show(), r.clone().unwrap_err())); }
                }
            }
        } } }
        // every ETC1 block value of a structured family (all modes, all delta signs): no panic in either profile
        for hi in 0..=0xFFFFu32 { if hi % 7 != 0 && hi < 0xFF00 { continue; }
            let px = (hi as u64) << 48 | (hi as u64 ^ 0x5A5A) << 32 | 0x0F0F_3C3C;
            let mut data = Vec::new(); for _ in 0..4 { data.extend_from_slice(&px.to_le_bytes()); }
            check(no_panic(|| decode_pixel_data(&data, 8, 8, 12).is_ok()).is_ok(), "C19.decoding_never_panics_in_either_build_profile", || format!("ETC1 block {:#018x}", px));
        }
        // ---------------- C19: 8-bit palette images in 8x4 blocks of any size, cropped (through the TPL reader)
        let palette: Vec<u16> = (0..256u32).map(|i| (i.wrapping_mul(40503) ^ (i << 7)) as u16 | if i % 3 == 0 { 0x8000 } else { 0 }).collect();
        for &(w, h) in &[(8usize, 4usize), (16, 8), (5, 4), (5, 7), (16, 6), (12, 4), (20, 10), (9, 9), (1, 1), (33, 5), (8, 8), (64, 64), (8, 6), (8, 1), (24, 3), (16, 13)] {
            let (aw, ah) = ((w + 7) / 8 * 8, (h + 3) / 4 * 4);
            let mut idx = payload(aw * ah, (w * 131 + h) as u32);
            // padding bytes differ from every real index so that a leak shows
            for by in 0..ah / 4 { for bx in 0..aw / 8 { for r in 0..4 { for c in 0..8 { let (x, y) = (bx * 8 + c, by * 4 + r); let at = (by * (aw / 8) + bx) * 32 + r * 8 + c;
                if x >= w || y >= h { idx[at] = 0xFF; } else if idx[at] == 0xFF { idx[at] = 0x7F; } } } } }
            let file = build_tpl(w, h, &idx, &palette);
            let show = || format!("TPL CI8 {}x{} file {}", w, h, hex(&file));
            match no_panic(|| Tpl::extract_textures(&file)) {
                Ok(Ok(t)) => {
                    // "yields width x height RGBA pixels ... cropped to the stated dimensions" is C19's own sentence
                    if t.len() == 1 { check(t[0].pixel_data.len() == 4 * w * h, "C19.palette_image_yields_width_x_height_pixels", || format!("{} -> {} bytes of pixel data, {} expected", show(), t[0].pixel_data.len(), 4 * w * h)); }
                    if check(t.len() == 1 && t[0].width == w && t[0].height == h && t[0].pixel_data.len() == 4 * w * h, "C20.tpl_same_count_and_dimensions", show) {
                        let mut bad = None;
                        for y in 0..h { for x in 0..w { let at = ((y / 4) * (aw / 8) + x / 8) * 32 + (y % 4) * 8 + x % 8; let o = (y * w + x) * 4;
                            if bad.is_none() && !rgb5a3_ok(palette[idx[at] as usize], &t[0].pixel_data[o..o + 4]) { bad = Some((x, y)); } } }
                        check(bad.is_none(), "C19.palette_image_in_8x4_blocks_cropped_to_stated_size", || format!("{} first wrong pixel {:?}", show(), bad));
                    }
                }
                other => { check(false, "C20.conforming_tpl_is_read", || format!("{} -> {:?}", show(), other.map(|r| r.map(|_| ())))); }
            }
            if w * h <= 64 { for cut in 0..file.len() { let pre = &file[..cut];
                match no_panic(|| Tpl::extract_textures(pre)) { Err(p) => { check(false, "C20.prefix_never_panics", || format!("{} cut {} -> {}", show(), cut, p)); }
                    Ok(Ok(_)) => { check(false, "C20.cut_payload_is_an_error", || format!("{} cut {}", show(), cut)); } Ok(Err(_)) => { check(true, "C20.cut_payload_is_an_error", || String::new()); } } } }
            for byte in 0..4 { for bit in [0x01u8, 0x20, 0x80] { let mut wrong = file.clone(); wrong[byte] ^= bit;
                check(matches!(no_panic(|| Tpl::extract_textures(&wrong)), Ok(Err(_))), "C20.wrong_magic_is_rejected", || format!("TPL {}", hex(&wrong[..16]))); } }
        }
        // ---------------- C20: CTPK / BCH / CGFX with 1..3 textures
        let mk = |name: &'static str, w: usize, h: usize, format: u32, seed: u32| Tex { name, w, h, format, data: if format >= 12 { etc_payload(w, h, format == 13, seed, None) } else { payload(payload_len(format, w, h), seed) } };
        let lists: Vec<Vec<Tex>> = vec![
            vec![mk("a", 8, 8, 7, 1)], vec![mk("tex_rgba8", 8, 8, 0, 2)], vec![mk("etc", 8, 8, 12, 3)], vec![mk("etc_a4", 16, 8, 13, 4)], vec![mk("r565", 8, 16, 3, 5)],
            vec![mk("first", 8, 8, 2, 6), mk("second", 16, 16, 4, 7)], vec![mk("x", 16, 8, 5, 8), mk("y", 8, 8, 8, 9), mk("z", 32, 8, 12, 10)], vec![],
        ];
        type Reader = fn(&[u8]) -> Result<Vec<crate::Texture>, crate::TextureParseError>;
        let kinds: [(&str, fn(&[Tex]) -> Vec<u8>, Reader, bool); 3] = [("CTPK", build_ctpk, ctpk::read, false), ("BCH", build_bch, bch::read, true), ("CGFX", build_cgfx, cgfx::read, true)];
        for (kind, build, read, has_magic) in kinds { for list in &lists {
            let file = build(list);
            let show = || format!("{} with {:?} file {}", kind, list.iter().map(|t| (t.name, t.w, t.h, t.format)).collect::<Vec<_>>(), hex(&file));
            match no_panic(|| read(&file)) {
                Ok(Ok(got)) => {
                    if check(got.len() == list.len(), "C20.same_number_of_textures", || format!("{} -> {}", show(), got.len())) {
                        for (g, t) in got.iter().zip(list.iter()) {
                            check(g.filename == t.name && g.width == t.w && g.height == t.h, "C20.same_names_and_dimensions_in_order", || format!("{} -> {:?} {}x{}", show(), g.filename, g.width, g.height));
                            let r = expected_ok(t.format, t.w, t.h, &t.data, &g.pixel_data);
                            check(r.is_ok(), "C20.pixel_data_is_the_decoding_of_its_own_payload", || format!("{} texture {} : {}", show(), t.name, r.clone().unwrap_err()));
                        }
                    }
                }
                other => { check(false, "C20.conforming_container_is_read", || format!("{} -> {:?}", show(), other.map(|r| r.map(|_| ())))); }
            }
            if has_magic { for byte in 0..4 { for bit in [0x01u8, 0x20, 0x80] { let mut wrong = file.clone(); wrong[byte] ^= bit;
                check(matches!(no_panic(|| read(&wrong)), Ok(Err(crate::TextureParseError::BadMagicNumber))), "C20.wrong_magic_is_rejected", || format!("{} {}", kind, hex(&wrong[..8]))); } } }
            // every strict prefix: no panic; an error whenever the cut removes part of a texture payload (payloads are the tail)
            let payload_total: usize = list.iter().map(|t| t.data.len()).sum();
            for cut in 0..file.len() { let pre = &file[..cut];
                match no_panic(|| read(pre)) { Err(p) => { check(false, "C20.prefix_never_panics", || format!("{} cut {} -> {}", show(), cut, p)); }
                    Ok(Ok(_)) => { check(cut < file.len() - payload_total.min(file.len()) || payload_total == 0, "C20.cut_payload_is_an_error", || format!("{} cut {}", show(), cut)); }
                    Ok(Err(_)) => {} } }
        } }
        finish("native_textures");
    }
}
