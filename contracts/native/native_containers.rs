// C15 / C16 / C17 / C18 companion (bounded) + C05 totality probes: pack archives, 3DS arc, aset, asset binaries.
#[cfg(test)]
mod __verif_native_containers {
    use crate::{arc, fe9_arc, ASetFile, AssetBinary, AssetSpec, BinArchive, Endian, TextArchive, TextArchiveFormat};
    use indexmap::IndexMap;
    include!("__verif_native_common.rs");

    fn be32(b: &[u8], o: usize) -> usize { u32::from_be_bytes([b[o], b[o + 1], b[o + 2], b[o + 3]]) as usize }
    fn cstr(b: &[u8], o: usize) -> Option<Vec<u8>> { if o > b.len() { return None; } let e = b[o..].iter().position(|c| *c == 0)?; Some(b[o..o + e].to_vec()) }

    /// every parser of the family on arbitrary bytes: Ok or Err, never a panic (C05)
    fn totality(bytes: &[u8], what: &str) {
        let show = || format!("{} : {}", what, hex(bytes));
        for big in [false, true] {
            let e = if big { Endian::Big } else { Endian::Little };
            match no_panic(|| BinArchive::from_bytes(bytes, e)) {
                Err(p) => { check(false, "C05.bin_archive_parser_never_panics", || format!("{} -> {}", show(), p)); }
                Ok(Ok(a)) => {
                    check(no_panic(|| a.serialize().is_ok()).is_ok(), "C05.accepted_input_reserializes_without_panic", show);
                    check(no_panic(|| ASetFile::from_archive(&a).is_ok()).is_ok(), "C05.aset_reader_never_panics", show);
                    check(no_panic(|| AssetBinary::from_archive(&a).is_ok()).is_ok(), "C05.asset_reader_never_panics", show);
                    for f in [TextArchiveFormat::ShiftJIS, TextArchiveFormat::Unicode] {
                        check(no_panic(|| TextArchive::from_archive(&a, f, e).is_ok()).is_ok(), "C05.text_reader_never_panics", show);
                    }
                }
                Ok(Err(_)) => {}
            }
        }
        let (r, big) = largest_request_during(|| no_panic(|| arc::from_bytes(bytes).is_ok()));
        check(r.is_ok(), "C05.arc_parser_never_panics", show);
        check(big <= 64 * bytes.len() + 65536, "C05.no_allocation_sized_by_an_unchecked_field", || format!("{} : arc::from_bytes requested {} bytes at once", show(), big));
        let (r, big) = largest_request_during(|| no_panic(|| fe9_arc::parse(bytes).is_ok()));
        check(r.is_ok(), "C05.pack_parser_never_panics", show);
        check(big <= 64 * bytes.len() + 65536, "C05.no_allocation_sized_by_an_unchecked_field", || format!("{} : fe9_arc::parse requested {} bytes at once", show(), big));
        for big_end in [false, true] {
            let (_, big) = largest_request_during(|| no_panic(|| BinArchive::from_bytes(bytes, if big_end { Endian::Big } else { Endian::Little }).is_ok()));
            check(big <= 64 * bytes.len() + 65536, "C05.no_allocation_sized_by_an_unchecked_field", || format!("{} : BinArchive::from_bytes requested {} bytes at once", show(), big));
        }
    }
    /// prefixes and single-field corruptions of a valid image
    fn totality_family(img: &[u8], what: &str) {
        for cut in 0..img.len().min(96) { totality(&img[..cut], what); }
        if img.len() > 96 { for cut in (96..img.len()).step_by(7) { totality(&img[..cut], what); } }
        for off in (0..img.len().min(0x40)).step_by(4) {
            for v in [0u32, 1, 4, 0x20, 0x7FFF_FFFF, 0x8000_0000, 0xFFFF_FFF0, 0xFFFF_FFFC, 0xFFFF_FFFF, img.len() as u32, img.len() as u32 + 1] {
                if off + 4 > img.len() { continue; }
                let mut m = img.to_vec();
                m[off..off + 4].copy_from_slice(&v.to_le_bytes()); totality(&m, what);
                m[off..off + 4].copy_from_slice(&v.to_be_bytes()); totality(&m, what);
            }
        }
    }

    // ------------------------------------------------------------------ C15
    fn pack_reference_read(img: &[u8]) -> Result<Vec<(Vec<u8>, Vec<u8>, usize)>, String> {
        if img.len() < 8 || be32(img, 0) != 0x7061636B { return Err("magic".into()); }
        let n = u16::from_be_bytes([img[4], img[5]]) as usize;
        let mut out = Vec::new();
        for i in 0..n {
            let r = 8 + 16 * i;
            if r + 16 > img.len() { return Err("record table outside the image".into()); }
            let (na, fa, sz) = (be32(img, r + 4), be32(img, r + 8), be32(img, r + 12));
            let name = cstr(img, na).ok_or("name outside the image")?;
            if fa + sz > img.len() { return Err(format!("body of file {} outside the image", i)); }
            out.push((name, img[fa..fa + sz].to_vec(), fa));
        }
        Ok(out)
    }
    fn check_pack() {
        let bodies: Vec<Vec<u8>> = vec![vec![], vec![1], vec![2; 31], vec![3; 32], vec![4; 33], vec![5; 64], (0..100).map(|i| i as u8).collect()];
        let names = ["a", "file.bin", "dir/x", "ｱｲｳ", "日本語.dat", "zz", "n7"];
        let mut sets: Vec<Vec<(String, Vec<u8>)>> = vec![vec![]];
        for b in &bodies { sets.push(vec![("only".to_string(), b.clone())]); }
        for (i, a) in bodies.iter().enumerate() { for (j, b) in bodies.iter().enumerate() { sets.push(vec![(names[i].to_string(), a.clone()), (names[(j + 3) % 7].to_string() + "2", b.clone())]); } }
        sets.push(names.iter().enumerate().map(|(i, n)| (n.to_string(), bodies[i].clone())).collect());
        sets.push(names.iter().rev().enumerate().map(|(i, n)| (n.to_string(), bodies[(i * 3) % 7].clone())).collect());
        sets.push((0..300).map(|i| (format!("f{:03}", i), vec![i as u8; i % 5])).collect());
        for set in &sets {
            let mut m: IndexMap<String, Vec<u8>> = IndexMap::new();
            for (k, v) in set { m.insert(k.clone(), v.clone()); }
            let show = || format!("files {:?}", set.iter().map(|(k, v)| (k.clone(), v.len())).take(12).collect::<Vec<_>>());
            let img = match no_panic(|| fe9_arc::serialize(&m)) { Ok(Ok(i)) => i, other => { check(false, "C15.build_succeeds", || format!("{} -> {:?}", show(), other.map(|r| r.map(|_| ())))); continue; } };
            match pack_reference_read(&img) {
                Err(e) => { check(false, "C15.image_layout_is_exact", || format!("{} image {} : {}", show(), hex(&img), e)); }
                Ok(recs) => {
                    let want_names: Vec<Vec<u8>> = set.iter().map(|(k, _)| encoding_rs::SHIFT_JIS.encode(k).0.into_owned()).collect();
                    check(recs.len() == set.len(), "C15.header_count_equals_number_of_files", || format!("{} count {}", show(), recs.len()));
                    check(recs.iter().map(|r| r.0.clone()).collect::<Vec<_>>() == want_names && recs.iter().map(|r| &r.1).collect::<Vec<_>>() == set.iter().map(|s| &s.1).collect::<Vec<_>>(),
                          "C15.recorded_names_offsets_sizes_are_exact", || format!("{} image {}", show(), hex(&img)));
                    check(recs.iter().all(|r| r.2 % 32 == 0), "C15.files_start_on_32_byte_boundaries", || format!("{} addresses {:?}", show(), recs.iter().map(|r| r.2).collect::<Vec<_>>()));
                }
            }
            match no_panic(|| fe9_arc::parse(&img)) {
                Ok(Ok(p)) => { check(p.iter().map(|(k, v)| (k.clone(), v.clone())).collect::<Vec<_>>() == *set, "C15.build_then_parse_is_identity", show); }
                other => { check(false, "C15.own_image_is_accepted", || format!("{} -> {:?}", show(), other.map(|r| r.map(|_| ())))); }
            }
            if set.len() <= 7 { totality_family(&img, "pack image"); }
            // "an entry that declares more file bytes than the buffer holds is rejected with an error": cut inside a body
            if let Ok(recs) = pack_reference_read(&img) {
                for (_, body, at) in recs.iter().filter(|r| !r.1.is_empty()) {
                    for cut in [*at, at + body.len() / 2, at + body.len() - 1] {
                        let pre = &img[..cut];
                        match no_panic(|| fe9_arc::parse(pre)) {
                            Ok(Ok(_)) => { check(false, "C05.entry_declaring_more_bytes_than_present_is_rejected", || format!("{} cut at {} of {}", show(), cut, img.len())); }
                            Ok(Err(_)) => { check(true, "C05.entry_declaring_more_bytes_than_present_is_rejected", || String::new()); }
                            Err(p) => { check(false, "C05.pack_parser_never_panics", || format!("{} cut at {} -> {}", show(), cut, p)); }
                        }
                    }
                }
            }
        }
        // conforming images with a different placement: bodies first, names last, unpadded, a body ending exactly at the end
        for set in sets.iter().filter(|s| !s.is_empty() && s.len() <= 7) {
            let n = set.len();
            let mut img = vec![0u8; 8 + 16 * n];
            img[0..4].copy_from_slice(&0x7061636Bu32.to_be_bytes()); img[4..6].copy_from_slice(&(n as u16).to_be_bytes());
            let mut body_at = Vec::new();
            for (_, b) in set { body_at.push(img.len()); img.extend_from_slice(b); img.push(0xCC); }
            // names in REVERSE entry order, separated by filler, so that only the recorded addresses find them
            let mut name_at = vec![0usize; n];
            for (i, (k, _)) in set.iter().enumerate().rev() { img.extend_from_slice(&[0xDD, 0xDD, 0]); name_at[i] = img.len(); img.extend_from_slice(&encoding_rs::SHIFT_JIS.encode(k).0); img.push(0); }
            // last body moved to the very end of the image
            let last = n - 1; body_at[last] = img.len(); img.extend_from_slice(&set[last].1);
            for i in 0..n { let r = 8 + 16 * i; img[r + 4..r + 8].copy_from_slice(&(name_at[i] as u32).to_be_bytes()); img[r + 8..r + 12].copy_from_slice(&(body_at[i] as u32).to_be_bytes()); img[r + 12..r + 16].copy_from_slice(&(set[i].1.len() as u32).to_be_bytes()); }
            let show = || format!("hand-placed image {}", hex(&img));
            match no_panic(|| fe9_arc::parse(&img)) {
                Ok(Ok(p)) => { check(p.iter().map(|(k, v)| (k.clone(), v.clone())).collect::<Vec<_>>() == *set, "C15.parser_extracts_files_wherever_they_are_placed", show); }
                _ => { check(false, "C15.conforming_image_is_accepted", show); }
            }
        }
    }

    // ------------------------------------------------------------------ C16
    fn build_arc(files: &[(&str, Vec<u8>)], header: bool, bodies_first: bool) -> Vec<u8> {
        let n = files.len();
        let pad = if header { 0x60 } else { 0 };
        let mut a = BinArchive::new(Endian::Little);
        // layout: [0x60 zero header] | count cell (+ pad so the first word is non-zero without a header) | table | bodies   -- or bodies before the table
        let mut bodies: Vec<u8> = Vec::new(); let mut offs = Vec::new();
        for (_, b) in files { offs.push(bodies.len()); bodies.extend_from_slice(b); while bodies.len() % 4 != 0 { bodies.push(0xEE); } }
        let head = pad + 4;
        let (table_at, bodies_at) = if bodies_first { (head + bodies.len(), head) } else { (head, head + 16 * n) };
        a.allocate_at_end(head + 16 * n + bodies.len());
        a.write_u32(pad, n as u32).unwrap();
        if !header && n == 0 { /* first word 0 would read as a header: avoid by construction below */ }
        a.write_label(pad, "Count").unwrap();
        a.write_label(table_at, "Info").unwrap();
        for (i, (name, body)) in files.iter().enumerate() {
            let r = table_at + 16 * i;
            a.write_string(r, Some(name)).unwrap(); a.write_u32(r + 4, i as u32).unwrap(); a.write_u32(r + 8, body.len() as u32).unwrap();
            a.write_u32(r + 12, (bodies_at + offs[i] - pad) as u32).unwrap();
        }
        if !bodies.is_empty() { a.write_bytes(bodies_at, &bodies).unwrap(); }
        a.serialize().unwrap()
    }
    fn check_arc() {
        let file_sets: Vec<Vec<(&str, Vec<u8>)>> = vec![
            vec![("a.bin", vec![1, 2, 3, 4])], vec![("a", vec![9; 5]), ("b", vec![8; 8]), ("c", vec![7])],
            vec![("x", vec![1; 4]), ("empty_last", vec![])], vec![("empty_first", vec![]), ("y", vec![2; 6])], vec![("only_empty", vec![])],
            vec![("p/q.r", (0..40).collect()), ("日本", vec![0xFF; 3])],
        ];
        for files in &file_sets { for header in [false, true] { for bodies_first in [false, true] {
            if !header && files.len() == 0 { continue; }
            let img = build_arc(files, header, bodies_first);
            let show = || format!("arc header={} bodies_first={} files {:?} image {}", header, bodies_first, files.iter().map(|(k, v)| (*k, v.len())).collect::<Vec<_>>(), hex(&img));
            match no_panic(|| arc::from_bytes(&img)) {
                Ok(Ok(m)) => {
                    check(m.len() == files.len(), "C16.one_entry_per_record", || format!("{} -> {} entries", show(), m.len()));
                    check(files.iter().all(|(k, v)| m.get(*k) == Some(v)), "C16.entry_bytes_are_exactly_the_recorded_range", show);
                }
                other => { check(false, "C16.conforming_image_is_accepted", || format!("{} -> {:?}", show(), other.map(|r| r.map(|_| ())))); }
            }
            // a record whose range leaves the data region, a missing label, a record without a name: errors
            let a = BinArchive::from_bytes(&img, Endian::Little).unwrap();
            let info = a.find_label_address("Info").unwrap();
            let mut variants: Vec<(BinArchive, &'static str)> = Vec::new();
            { let mut b = BinArchive::from_bytes(&img, Endian::Little).unwrap(); b.write_u32(info + 8, b.size() as u32 + 1).unwrap(); variants.push((b, "C16.record_leaving_the_data_region_is_an_error")); }
            { let mut b = BinArchive::from_bytes(&img, Endian::Little).unwrap(); b.write_u32(info + 12, 0xFFFF_FFF0).unwrap(); if !files[0].1.is_empty() { variants.push((b, "C16.record_leaving_the_data_region_is_an_error")); } }
            { let mut b = BinArchive::from_bytes(&img, Endian::Little).unwrap(); b.write_string(info, None).unwrap(); variants.push((b, "C16.record_without_a_name_is_an_error")); }
            { let mut b = BinArchive::from_bytes(&img, Endian::Little).unwrap(); b.delete_labels(info).ok(); if b.find_label_address("Info").is_none() { variants.push((b, "C16.missing_label_is_an_error")); } }
            for (b, clause) in variants {
                let bytes = b.serialize().unwrap();
                match no_panic(|| arc::from_bytes(&bytes)) { Ok(Err(_)) => { check(true, clause, || String::new()); }
                    Ok(Ok(_)) => { check(false, clause, || format!("{} variant {}", show(), hex(&bytes))); }
                    Err(p) => { check(false, "C16.extraction_never_panics", || format!("{} variant {} -> {}", show(), hex(&bytes), p)); } }
            }
            totality_family(&img, "arc image");
            // a record declaring far more bytes than the image holds (the size field is the second word of the record)
            for huge in [0x4000_0000u32, 0xFFFF_FFFF, 0x0100_0000] {
                let mut b = BinArchive::from_bytes(&img, Endian::Little).unwrap(); b.write_u32(info + 8, huge).unwrap();
                totality(&b.serialize().unwrap(), "arc image with an oversized record");
            }
            { let a2 = BinArchive::from_bytes(&img, Endian::Little).unwrap(); let mut rd = crate::BinArchiveReader::new(&a2, 0);
              check(matches!(no_panic(|| rd.read_bytes(usize::MAX).is_err()), Ok(true)), "C05.stream_reader_never_panics", || "read_bytes(usize::MAX)".to_string()); }
        } } }
    }

    // ------------------------------------------------------------------ C17
    fn check_aset() {
        let mk_set = |label: Option<&str>, present: &[usize]| -> Vec<Option<String>> {
            let mut s: Vec<Option<String>> = vec![None; 257]; s[0] = label.map(|l| l.to_string());
            for p in present { s[*p] = Some(format!("anim{}", p)); } s };
        let clip = |present: &[usize]| -> Vec<Option<String>> { let mut t = vec![None; 257]; for p in present { t[*p] = Some(format!("clip{}", p)); } t };
        let mut files: Vec<ASetFile> = Vec::new();
        let slot_sets: Vec<Vec<usize>> = vec![vec![], vec![1], vec![32], vec![33], vec![64], vec![256], vec![225], vec![1, 2, 3], vec![1, 33, 65, 97, 129, 161, 193, 225], (1..=256).collect(), (1..=32).collect(), vec![31, 32, 33, 224, 255, 256]];
        for meta in [None, Some("meta".to_string())] { for slots in &slot_sets {
            let mut f = ASetFile::new(meta.clone()); f.anim_clip_table = clip(&[0, 5, 256]);
            f.sets.push(mk_set(Some("SetA"), slots)); files.push(f);
        } }
        { let mut f = ASetFile::new(Some("m".into())); f.anim_clip_table = clip(&[]); files.push(f); }
        // present-but-empty strings (meta, a clip name, a slot) and two sets that carry the same label
        { let mut f = ASetFile::new(Some(String::new())); f.anim_clip_table = clip(&[3]); f.anim_clip_table[7] = Some(String::new());
          let mut st = mk_set(Some("SetE"), &[2, 40]); st[5] = Some(String::new()); st[256] = Some(String::new()); f.sets.push(st); files.push(f); }
        { let mut f = ASetFile::new(None); f.anim_clip_table = clip(&[1]);
          f.sets.push(mk_set(Some("uEAnim_dup"), &[1, 33])); f.sets.push(mk_set(Some("other"), &[2])); f.sets.push(mk_set(Some("uEAnim_dup"), &[64])); files.push(f); }
        { let mut f = ASetFile::new(None); f.anim_clip_table = clip(&[1]); f.sets.push(mk_set(None, &[9])); f.sets.push(mk_set(Some("L"), &[])); f.sets.push(mk_set(Some("M"), &[256])); files.push(f); }
        { let mut f = ASetFile::new(None); f.anim_clip_table = clip(&(0..257).collect::<Vec<_>>());
          for (i, slots) in slot_sets.iter().enumerate() { f.sets.push(mk_set(Some(&format!("Set{}", i)), slots)); } files.push(f); }
        for f in &files {
            let show = || format!("aset meta {:?} sets {:?}", f.meta, f.sets.iter().map(|s| (s[0].clone(), s.iter().enumerate().skip(1).filter(|(_, x)| x.is_some()).map(|(i, _)| i).collect::<Vec<_>>())).collect::<Vec<_>>());
            let bytes = match no_panic(|| f.serialize()) { Ok(Ok(b)) => b, other => { check(false, "C17.serialize_succeeds", || format!("{} -> {:?}", show(), other.map(|r| r.map(|_| ())))); continue; } };
            let arch = match BinArchive::from_bytes(&bytes, Endian::Little) { Ok(a) => a, Err(e) => { check(false, "C17.image_is_a_bin_archive", || format!("{} -> {:?}", show(), e)); continue; } };
            match no_panic(|| ASetFile::from_archive(&arch)) {
                Ok(Ok(r)) => {
                    check(r.meta == f.meta, "C17.same_meta", show);
                    check(r.anim_clip_table == f.anim_clip_table, "C17.same_clip_name_table", show);
                    check(r.sets == f.sets, "C17.same_sets_labels_and_slots", || format!("{} read back {:?}", show(), r.sets.iter().map(|s| (s.len(), s[0].clone(), s.iter().skip(1).filter(|x| x.is_some()).count())).collect::<Vec<_>>()));
                    match no_panic(|| r.serialize()) { Ok(Ok(again)) => { check(again == bytes, "C17.reserialize_reproduces_the_bytes", show); } _ => { check(false, "C17.reserialize_reproduces_the_bytes", show); } }
                }
                other => { check(false, "C17.own_image_is_read_back", || format!("{} -> {:?}", show(), other.map(|r| r.map(|_| ())))); }
            }
            // "absent slots cost no space, a group of 32 slots that is entirely absent is omitted"
            let strings: usize = f.sets.iter().map(|s| s.iter().skip(1).filter(|x| x.is_some()).count()).sum();
            let groups: usize = f.sets.iter().map(|s| (0..8).filter(|g| (0..32).any(|b| s[g * 32 + b + 1].is_some())).count()).sum();
            check(arch.size() == 12 + 4 * f.anim_clip_table.len() + 4 * (f.sets.len() + groups + strings), "C17.absent_slots_and_groups_cost_no_space", || format!("{} data size {}", show(), arch.size()));
            if f.sets.len() <= 1 { totality_family(&bytes, "aset image"); }
        }
    }

    // ------------------------------------------------------------------ C18
    macro_rules! str_fields { ($m:ident) => { $m!(conditional1); $m!(conditional2); $m!(body_model); $m!(body_texture); $m!(head_model); $m!(head_texture); $m!(hair_model);
        $m!(hair_texture); $m!(outer_clothing_model); $m!(outer_clothing_texture); $m!(underwear_model); $m!(underwear_texture); $m!(mount_model); $m!(mount_texture); $m!(mount_outer_clothing_model);
        $m!(mount_outer_clothing_texture); $m!(weapon_model_dual); $m!(weapon_model); $m!(skeleton); $m!(mount_skeleton); $m!(accessory1_model); $m!(accessory1_texture); $m!(accessory2_model);
        $m!(accessory2_texture); $m!(accessory3_model); $m!(accessory3_texture); $m!(attack_animation); $m!(attack_animation2); $m!(visual_effect); $m!(hid); $m!(footstep_sound);
        $m!(clothing_sound); $m!(voice); } }
    macro_rules! num_fields { ($m:ident) => { $m!(unk3, use_unk3); $m!(unk4, use_unk4); $m!(unk5, use_unk5); $m!(unk6, use_unk6); $m!(unk7, use_unk7); $m!(unk8, use_unk8); $m!(unk9, use_unk9);
        $m!(unk10, use_unk10); $m!(unk11, use_unk11); $m!(unk12, use_unk12); $m!(unk13, use_unk13); } }
    /// a field whose presence flag is clear is not stored: its value is not part of the content
    fn normal(s: &AssetSpec) -> AssetSpec {
        let mut s = s.clone();
        macro_rules! nm { ($v:ident, $u:ident) => { if !s.$u { s.$v = 0; } } } num_fields!(nm);
        if !s.use_hair_color { s.hair_color = [0; 4]; } if !s.use_skin_color { s.skin_color = [0; 4]; } if !s.use_weapon_trail_color { s.weapon_trail_color = [0; 4]; }
        if !s.use_bitflags { s.bitflags = [0; 4]; }
        if !s.use_model_size { s.model_size = 0.0; } if !s.use_head_size { s.head_size = 0.0; } if !s.use_pupil_y { s.pupil_y = 0.0; }
        s
    }
    fn same_spec(a: &AssetSpec, b: &AssetSpec) -> bool {
        let (a, b) = (normal(a), normal(b));
        format!("{:?}", a) == format!("{:?}", b) && a.model_size.to_bits() == b.model_size.to_bits() && a.head_size.to_bits() == b.head_size.to_bits() && a.pupil_y.to_bits() == b.pupil_y.to_bits()
    }
    /// (number of optional cells, extended form needed)
    fn spec_shape(s: &AssetSpec) -> (usize, bool) {
        let mut cells = 0usize; let mut ext = false; let mut idx = 1usize;
        macro_rules! st { ($f:ident) => { if s.$f.is_some() { cells += 1; if idx >= 32 { ext = true; } } idx += 1; } }
        str_fields!(st);
        for u in [s.use_hair_color, s.use_skin_color, s.use_weapon_trail_color, s.use_model_size, s.use_head_size, s.use_pupil_y, s.use_bitflags] { if u { cells += 1; ext = true; } }
        macro_rules! nm { ($v:ident, $u:ident) => { if s.$u { cells += 1; ext = true; } } }
        num_fields!(nm);
        let _ = idx;
        (cells, ext)
    }
    fn check_asset() {
        let mut specs: Vec<AssetSpec> = Vec::new();
        specs.push(AssetSpec::new());                                             // no optional field at all
        { let mut s = AssetSpec::new(); s.name = Some("named".into()); specs.push(s); }
        macro_rules! one_str { ($f:ident) => { { let mut s = AssetSpec::new(); s.name = Some("n".into()); s.$f = Some(stringify!($f).to_string()); specs.push(s); } } }
        str_fields!(one_str);
        macro_rules! one_num { ($v:ident, $u:ident) => { { let mut s = AssetSpec::new(); s.$v = 0xDEAD_0000 | specs.len() as u32; s.$u = true; specs.push(s); }
                                                         { let mut s = AssetSpec::new(); s.$v = 7; s.$u = false; specs.push(s); } } }
        num_fields!(one_num);
        for bits in [0x3F80_0000u32, 0x7FC1_2345, 0xFFFF_FFFF, 0x8000_0000, 0x7F80_0001, 0] {
            let mut s = AssetSpec::new(); s.model_size = f32::from_bits(bits); s.use_model_size = true; specs.push(s);
            let mut s = AssetSpec::new(); s.head_size = f32::from_bits(bits); s.use_head_size = true; s.pupil_y = f32::from_bits(bits ^ 1); s.use_pupil_y = true; specs.push(s);
        }
        { let mut s = AssetSpec::new(); s.hair_color = [1, 2, 3, 4]; s.use_hair_color = true; specs.push(s); }
        { let mut s = AssetSpec::new(); s.skin_color = [5, 6, 7, 8]; s.use_skin_color = true; s.weapon_trail_color = [9, 10, 11, 12]; s.use_weapon_trail_color = true; specs.push(s); }
        { let mut s = AssetSpec::new(); s.bitflags = [0xA1, 0xB2, 0xC3, 0xD4]; s.use_bitflags = true; specs.push(s); }
        { let mut s = AssetSpec::new(); s.name = Some("all".into());
          macro_rules! set_str { ($f:ident) => { s.$f = Some(concat!("v_", stringify!($f)).to_string()); } } str_fields!(set_str);
          macro_rules! set_num { ($v:ident, $u:ident) => { s.$v = 0x1000 + stringify!($v).len() as u32; s.$u = true; } } num_fields!(set_num);
          s.hair_color = [1, 2, 3, 4]; s.use_hair_color = true; s.skin_color = [5, 6, 7, 8]; s.use_skin_color = true; s.weapon_trail_color = [9, 8, 7, 6]; s.use_weapon_trail_color = true;
          s.model_size = 1.5; s.use_model_size = true; s.head_size = -0.0; s.use_head_size = true; s.pupil_y = f32::from_bits(0x7FC0_0001); s.use_pupil_y = true;
          s.bitflags = [1, 0, 0, 0x80]; s.use_bitflags = true; specs.push(s); }
        let n = specs.len();
        let mut lists: Vec<Vec<AssetSpec>> = vec![vec![]];
        for s in &specs { lists.push(vec![s.clone()]); }
        for i in 0..n { lists.push(vec![specs[i].clone(), specs[(i * 7 + 3) % n].clone(), specs[(i * 13 + 1) % n].clone()]); }
        lists.push(vec![specs[1].clone(), specs[0].clone(), specs[n - 1].clone()]);      // a spec with no optional field in the middle
        lists.push(vec![specs[0].clone(), specs[0].clone()]);
        for (li, list) in lists.iter().enumerate() { for flags in [0u32, 0xCAFE_F00D].iter().take(if li % 9 == 0 { 2 } else { 1 }) {
            let b = AssetBinary { flags: *flags, specs: list.clone() };
            let show = || format!("asset binary flags {:#x} specs {:?}", flags, list);
            let bytes = match no_panic(|| b.serialize()) { Ok(Ok(x)) => x, other => { check(false, "C18.serialize_succeeds", || format!("{} -> {:?}", show(), other.map(|r| r.map(|_| ())))); continue; } };
            let arch = match BinArchive::from_bytes(&bytes, Endian::Little) { Ok(a) => a, Err(e) => { check(false, "C18.image_is_a_bin_archive", || format!("{} -> {:?}", show(), e)); continue; } };
            match no_panic(|| AssetBinary::from_archive(&arch)) {
                Ok(Ok(r)) => {
                    check(r.flags == *flags, "C18.same_header_flags", show);
                    check(r.specs.len() == list.len(), "C18.same_number_of_specs", || format!("{} read back {} specs", show(), r.specs.len()));
                    check(r.specs.len() == list.len() && r.specs.iter().zip(list.iter()).all(|(x, y)| same_spec(x, y)), "C18.every_field_and_presence_flag_preserved", || format!("{} read back {:?}", show(), r.specs));
                    match no_panic(|| r.serialize()) { Ok(Ok(again)) => { check(again == bytes, "C18.reserialize_reproduces_the_bytes", show); } _ => { check(false, "C18.reserialize_reproduces_the_bytes", show); } }
                }
                other => { check(false, "C18.own_image_is_read_back", || format!("{} -> {:?}", show(), other.map(|r| r.map(|_| ())))); }
            }
            // record sizes: 4 (header flags) + per spec [4 or 8 flag bytes + name cell + 4 per present field] + 4 (terminator)
            let want: usize = 8 + list.iter().map(|s| { let (cells, ext) = spec_shape(s); (if ext { 8 } else { 4 }) + 4 + 4 * cells }).sum::<usize>();
            check(arch.size() == want, "C18.records_occupy_exactly_what_their_flags_announce_short_form_iff_no_extended_field", || format!("{} data size {} expected {}", show(), arch.size(), want));
            if list.len() == 1 && li % 6 == 0 { totality_family(&bytes, "asset binary image"); }
        } }
    }

    #[test]
    fn run() {
        check_pack();
        check_arc();
        check_aset();
        check_asset();
        // a text archive image and an empty bin archive for the totality probes
        let mut t = TextArchive::new(TextArchiveFormat::Unicode, Endian::Little); t.set_title("T".into()); t.set_message("K1", "hello"); t.set_message("K2", "");
        totality_family(&t.serialize().unwrap(), "text archive image");
        totality_family(&BinArchive::new(Endian::Big).serialize().unwrap(), "empty bin archive image");
        finish("native_containers");
    }
}
