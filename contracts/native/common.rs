    // ---- shared by every native companion harness ------------------------------------------------
    // A companion harness executes the REAL functions of the crate (compiled natively from the tree
    // under check) on a stated, finite input family and evaluates the contract's postcondition in
    // executable form.  It is a BOUNDED stand-in (never counted as proved): its job is to decide the
    // property -- with a concrete failing input -- on trees whose shape the deductive units cannot
    // follow, and to cover functions neither Verus nor Kani reaches.  No randomness.
    use std::cell::RefCell;
    use std::collections::BTreeMap;
    thread_local! { static FAILS: RefCell<BTreeMap<&'static str, Vec<String>>> = RefCell::new(BTreeMap::new());
                    static CHECKS: RefCell<BTreeMap<&'static str, u64>> = RefCell::new(BTreeMap::new()); }
    pub fn check(cond: bool, clause: &'static str, input: impl FnOnce() -> String) -> bool {
        CHECKS.with(|c| *c.borrow_mut().entry(clause).or_insert(0) += 1);
        if !cond {
            FAILS.with(|f| { let mut f = f.borrow_mut(); let v = f.entry(clause).or_insert_with(Vec::new); if v.len() < 3 { v.push(input()); } });
        }
        cond
    }
    /// runs `f`, turning a panic into Err(message) -- "never panics" clauses
    pub fn no_panic<T>(f: impl FnOnce() -> T) -> Result<T, String> {
        let prev = std::panic::take_hook();
        std::panic::set_hook(Box::new(|_| {}));
        let r = std::panic::catch_unwind(std::panic::AssertUnwindSafe(f));
        std::panic::set_hook(prev);
        r.map_err(|e| e.downcast_ref::<String>().cloned().or_else(|| e.downcast_ref::<&str>().map(|s| s.to_string())).unwrap_or_else(|| "panic".to_string()))
    }
    /// VERIF_TIER=thorough widens the input families (the bound printed in the evidence names both)
    pub fn thorough() -> bool { std::env::var("VERIF_TIER").map(|v| v == "thorough").unwrap_or(false) }
    // "no single buffer larger than a small constant multiple of the input is ever requested": the test binary's
    // allocator records the largest single request made while a closure runs (harness is single-threaded)
    pub struct RecordingAlloc;
    static MAX_REQUEST: std::sync::atomic::AtomicUsize = std::sync::atomic::AtomicUsize::new(0);
    unsafe impl std::alloc::GlobalAlloc for RecordingAlloc {
        unsafe fn alloc(&self, l: std::alloc::Layout) -> *mut u8 { MAX_REQUEST.fetch_max(l.size(), std::sync::atomic::Ordering::Relaxed); std::alloc::System.alloc(l) }
        unsafe fn dealloc(&self, p: *mut u8, l: std::alloc::Layout) { std::alloc::System.dealloc(p, l) }
        unsafe fn realloc(&self, p: *mut u8, l: std::alloc::Layout, n: usize) -> *mut u8 { MAX_REQUEST.fetch_max(n, std::sync::atomic::Ordering::Relaxed); std::alloc::System.realloc(p, l, n) }
        unsafe fn alloc_zeroed(&self, l: std::alloc::Layout) -> *mut u8 { MAX_REQUEST.fetch_max(l.size(), std::sync::atomic::Ordering::Relaxed); std::alloc::System.alloc_zeroed(l) }
    }
    #[global_allocator]
    static RECORDING_ALLOC: RecordingAlloc = RecordingAlloc;
    pub fn largest_request_during<T>(f: impl FnOnce() -> T) -> (T, usize) {
        MAX_REQUEST.store(0, std::sync::atomic::Ordering::Relaxed);
        let r = f();
        (r, MAX_REQUEST.load(std::sync::atomic::Ordering::Relaxed))
    }
    pub fn hex(b: &[u8]) -> String {
        if b.len() <= 96 { b.iter().map(|x| format!("{:02x}", x)).collect::<Vec<_>>().join(" ") }
        else { format!("{} .. ({} bytes) .. {}", hex(&b[..48]), b.len(), hex(&b[b.len() - 16..])) }
    }
    pub fn finish(unit: &str) {
        CHECKS.with(|c| for (k, n) in c.borrow().iter() { println!("NATIVE-CLAUSE unit={} clause={} evaluations={}", unit, k, n); });
        let failed = FAILS.with(|f| { let f = f.borrow(); for (k, v) in f.iter() { for i in v { println!("NATIVE-FAIL unit={} clause={} input={}", unit, k, i.replace('\n', " ")); } } f.len() });
        println!("NATIVE-DONE unit={} failed_clauses={}", unit, failed);
        assert!(failed == 0, "{} clause(s) failed", failed);
    }
