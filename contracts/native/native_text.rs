// C06 / C07 companion (bounded): TextArchive through its public API.
#[cfg(test)]
mod __verif_native_text {
    use crate::{BinArchive, Endian, TextArchive, TextArchiveFormat};
    include!("__verif_native_common.rs");

    fn endian_of(big: bool) -> Endian { if big { Endian::Big } else { Endian::Little } }

    #[test]
    fn run() {
        // ------------------------------------------------------------------ C06
        let uni_msgs: Vec<&str> = vec!["", "a", "ab", "abc", "abcd", "abcde", "line1\nline2", "日本語", "ｴｻｿ", "\u{1F600}", "\u{10000}", "\u{20000}x", "a\u{1D800}b",
            "\u{FEFF}abc", "\u{FFFE}x", "x\u{FEFF}", "\u{FEFF}", "\u{BBEF}\u{BF00}z", "é", "\u{FFFF}", "tab\tq\\n"];
        let sjis_msgs: Vec<&str> = vec!["", "a", "ab", "abc", "abcd", "abcde", "line1\nline2", "日本語", "ｴｻｿ", "ｴｻｿabc", "ｱ", "表", "ソ\\", "\u{FF5E}", "é…"];
        let titles: Vec<&str> = vec!["", "T", "Title", "日本"];
        for uni in [true, false] { for big in [false, true] {
            let fmt = if uni { TextArchiveFormat::Unicode } else { TextArchiveFormat::ShiftJIS };
            let msgs: &Vec<&str> = if uni { &uni_msgs } else { &sjis_msgs };
            // entry lists: empty, every single message, every ordered pair from a subset (equal messages included), one long list
            let mut lists: Vec<Vec<(String, String)>> = vec![vec![]];
            for m in msgs { lists.push(vec![("KEY".to_string(), m.to_string())]); }
            for (i, a) in msgs.iter().enumerate() { for (j, b) in msgs.iter().enumerate() { if (i + 2 * j) % 3 == 0 || a == b {
                lists.push(vec![("MID_A".to_string(), a.to_string()), ("MID_B".to_string(), b.to_string())]); } } }
            lists.push(msgs.iter().enumerate().map(|(i, m)| (format!("K{:02}", msgs.len() - i), m.to_string())).collect());
            lists.push(vec![("b".into(), "same".into()), ("a".into(), "same".into()), ("c".into(), "".into()), ("d".into(), "".into())]);
            for (li, list) in lists.iter().enumerate() { for title in titles.iter().take(if li % 5 == 0 { 4 } else { 1 }) {
                if !uni && !title.is_empty() { continue; }       // the legacy format stores no title
                let show = || format!("format {} endian {} title {:?} entries {:?}", if uni { "Unicode" } else { "ShiftJIS" }, if big { "big" } else { "little" }, title, list);
                let mut t = TextArchive::new(fmt, endian_of(big));
                t.set_title(title.to_string());
                // set_message unescapes "\\n": feed the escaped form of the intended text
                for (k, m) in list { t.set_message(k, &m.replace('\n', "\\n")); }
                // SJIS: only representable text is in scope
                let bytes = match no_panic(|| t.serialize()) {
                    Err(p) => { check(false, "C06.serialize_never_panics", || format!("{} panic {}", show(), p)); continue; }
                    Ok(Err(e)) => { let representable = uni || list.iter().all(|(_, m)| m.chars().all(|c| c != 'é' && c != '…'));
                                    check(!representable, "C06.serialize_succeeds", || format!("{} -> {:?}", show(), e)); continue; }
                    Ok(Ok(b)) => b,
                };
                match no_panic(|| TextArchive::from_bytes(&bytes, fmt, endian_of(big))) {
                    Err(p) => { check(false, "C06.parse_never_panics", || format!("{} panic {}", show(), p)); }
                    Ok(Err(e)) => { check(false, "C06.own_image_is_accepted", || format!("{} -> {:?}", show(), e)); }
                    Ok(Ok(r)) => {
                        if uni { check(r.get_title() == *title, "C06.same_title", || format!("{} title read back {:?}", show(), r.get_title())); }
                        let got: Vec<(String, String)> = r.get_entries().iter().map(|(k, v)| (k.clone(), v.clone())).collect();
                        let want: Vec<(String, String)> = list.iter().map(|(k, m)| (k.clone(), m.replace("\\n", "\n"))).collect();
                        check(got.iter().map(|x| &x.0).collect::<Vec<_>>() == want.iter().map(|x| &x.0).collect::<Vec<_>>(), "C06.same_keys_same_order", || format!("{} keys read back {:?}", show(), got));
                        check(got == want, "C06.same_message_for_every_key", || format!("{} read back {:?}", show(), got));
                        check(!r.is_dirty(), "C07.parsed_archive_is_clean", || show());
                    }
                }
                // "in the file every message starts on a 4-byte boundary and carries its key as the label of that address"
                match no_panic(|| BinArchive::from_bytes(&bytes, endian_of(big))) {
                    Ok(Ok(a)) => {
                        let labels = a.all_labels();
                        check(labels.len() == list.len() && labels.iter().all(|(addr, _)| addr % 4 == 0), "C06.messages_aligned_and_labelled", || format!("{} labels {:?}", show(), labels));
                        let mut by_addr = labels.clone(); by_addr.sort_by_key(|x| x.0);
                        check(by_addr.iter().map(|x| x.1.clone()).collect::<Vec<_>>() == list.iter().map(|x| x.0.clone()).collect::<Vec<_>>()
                              && { let mut d = by_addr.iter().map(|x| x.0).collect::<Vec<_>>(); d.dedup(); d.len() == list.len() },
                              "C06.one_label_per_message_in_key_order", || format!("{} labels {:?}", show(), by_addr));
                    }
                    _ => { check(false, "C06.image_is_a_bin_archive", || show()); }
                }
            } }
        } }
        // ------------------------------------------------------------------ C07: every sequence of up to 5 set / delete calls over 3 keys
        let keys = ["a", "b", "c"];
        let vals = ["x", "y\\nz", "q\nr\\\\n"];
        #[derive(Clone, Copy, Debug)] enum Op { Set(usize, usize), Del(usize) }
        let mut ops = Vec::new();
        for k in 0..3 { for v in 0..3 { ops.push(Op::Set(k, v)); } ops.push(Op::Del(k)); }
        let n = ops.len();
        for len in 0..=4usize {
            let total = n.pow(len as u32);
            for code in 0..total {
                let mut seq = Vec::new(); let mut c = code; for _ in 0..len { seq.push(ops[c % n]); c /= n; }
                let mut t = TextArchive::new(TextArchiveFormat::Unicode, Endian::Little);
                let mut model: Vec<(String, String)> = Vec::new();
                let mut any_set = false;
                check(!t.is_dirty(), "C07.new_archive_is_clean", || "new".into());
                for op in &seq {
                    match *op {
                        Op::Set(k, v) => { t.set_message(keys[k], vals[v]); any_set = true;
                            let stored = vals[v].replace("\\n", "\n");
                            match model.iter_mut().find(|e| e.0 == keys[k]) { Some(e) => e.1 = stored, None => model.push((keys[k].to_string(), stored)) } }
                        Op::Del(k) => { t.delete_message(keys[k]); model.retain(|e| e.0 != keys[k]); }
                    }
                }
                let show = || format!("calls {:?}", seq);
                let got: Vec<(String, String)> = t.get_entries().iter().map(|(k, v)| (k.clone(), v.clone())).collect();
                check(got == model, "C07.surviving_keys_in_first_insertion_order_with_last_value", || format!("{} -> {:?} want {:?}", show(), got, model));
                check(t.is_dirty() == any_set, "C07.dirty_after_any_set", || show());
                for k in keys {
                    let want = model.iter().find(|e| e.0 == k).map(|e| e.1.replace('\n', "\\n"));
                    check(t.has_message(k) == want.is_some() && t.get_message(k) == want, "C07.lookup_returns_last_value_escaped", || format!("{} key {}", show(), k));
                    if let Some(m) = t.get_message(k) {
                        let before: Vec<(String, String)> = got.clone();
                        t.set_message(k, &m);
                        let after: Vec<(String, String)> = t.get_entries().iter().map(|(k, v)| (k.clone(), v.clone())).collect();
                        check(after == before, "C07.storing_a_looked_up_message_back_changes_nothing", || format!("{} key {} looked up {:?}", show(), k, m));
                    }
                }
            }
        }
        // longer key lists: delete one or two keys anywhere in a list of 4..=8 keys, optionally re-add the first deleted one
        for nkeys in 4..=8usize { for d1 in 0..nkeys { for d2 in 0..=nkeys { for readd in [false, true] {
            if d2 == d1 { continue; }
            let names: Vec<String> = (0..nkeys).map(|i| format!("K{}", i)).collect();
            let mut t = TextArchive::new(TextArchiveFormat::Unicode, Endian::Little);
            let mut model: Vec<(String, String)> = Vec::new();
            for (i, k) in names.iter().enumerate() { t.set_message(k, &format!("v{}", i)); model.push((k.clone(), format!("v{}", i))); }
            t.delete_message(&names[d1]); model.retain(|e| e.0 != names[d1]);
            if d2 < nkeys { t.delete_message(&names[d2]); model.retain(|e| e.0 != names[d2]); }
            if readd { t.set_message(&names[d1], "again"); model.push((names[d1].clone(), "again".to_string())); }
            let got: Vec<(String, String)> = t.get_entries().iter().map(|(k, v)| (k.clone(), v.clone())).collect();
            check(got == model, "C07.surviving_keys_in_first_insertion_order_with_last_value", || format!("{} keys, delete #{} then #{} (={} means none), re-add {}: {:?} want {:?}", nkeys, d1, d2, nkeys, readd, got, model));
            // the order also survives serialize -> parse
            if let Ok(bytes) = t.serialize() { if let Ok(r) = TextArchive::from_bytes(&bytes, TextArchiveFormat::Unicode, Endian::Little) {
                let back: Vec<String> = r.get_entries().keys().cloned().collect();
                check(back == model.iter().map(|e| e.0.clone()).collect::<Vec<_>>(), "C07.serialized_order_is_insertion_order", || format!("{:?}", back)); } }
        } } } }
        finish("native_text");
    }
}
