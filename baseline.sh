#!/bin/sh
# Repository test suite with no instrumentation (there are no source hooks).  Runs in a scratch
# copy because cargo would rewrite /repo/Cargo.lock.
set -e
T=$(mktemp -d /var/tmp/mila-verif-baseline.XXXXXX)
trap 'rm -rf "$T"' EXIT
cp -r /repo/src /repo/Cargo.toml /repo/Cargo.lock /repo/resources "$T"/ 2>/dev/null || true
[ -d /repo/tests ] && cp -r /repo/tests "$T"/
cd "$T"
CARGO_NET_OFFLINE=true CARGO_TARGET_DIR="$T/target" cargo test --workspace --no-fail-fast --offline
