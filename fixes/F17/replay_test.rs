// append to src/text_archive.rs
// F17 (C06): UTF-16 messages were decoded with BOM sniffing: a message that starts with U+FEFF lost that
// character, and one that starts with U+FFFE (or with the code units EF BB BF 00 read as a UTF-8 BOM) was decoded
// with the wrong encoding.  "any NUL-free text (... BOM-like characters included, for the UTF-16 format)".
#[cfg(test)]
mod f17_replay {
    use super::*;
    #[test]
    fn bom_like_characters_survive_the_round_trip() {
        for msg in ["\u{FEFF}abc", "\u{FFFE}x", "\u{BBEF}\u{BF00}z", "\u{FEFF}"] {
            let mut t = TextArchive::new(TextArchiveFormat::Unicode, Endian::Little);
            t.set_message("KEY", msg);
            let r = TextArchive::from_bytes(&t.serialize().unwrap(), TextArchiveFormat::Unicode, Endian::Little).unwrap();
            assert_eq!(r.get_entries().get("KEY").map(|s| s.as_str()), Some(msg));
        }
    }
}
