// appended to src/bin_archive.rs in a scratch copy; `cargo test --offline verif_replay_f1`
// fails (panic) before commit bc16914 in debug and --release, passes after.
#[cfg(test)]
mod verif_replay_f1 {
    use super::*;
    #[test]
    fn read_bytes_huge_amount_is_error_not_panic() {
        let mut a = BinArchive::new(Endian::Little);
        a.allocate_at_end(4);
        let r = a.read_bytes(1, usize::MAX);
        assert!(matches!(r, Err(ArchiveError::OutOfBoundsAddress(_, _))));
    }
}
