// append to src/bin_archive.rs
// F12 (C03): pending c-strings (write_c_string cells, materialised by serialize) were not relocated by
// allocate / deallocate / truncate: after inserting 4 bytes in front of a c-string cell the serialized image
// carried the c-string pointer at the OLD address (overwriting whatever moved there).
#[cfg(test)]
mod f12_replay {
    use super::*;
    use crate::Endian;
    fn reparsed(a: &BinArchive) -> BinArchive {
        BinArchive::from_bytes(&a.serialize().unwrap(), Endian::Little).unwrap()
    }
    #[test]
    fn allocate_moves_pending_c_strings() {
        let mut a = BinArchive::new(Endian::Little);
        a.allocate_at_end(8);
        a.write_c_string(4, "x".to_string()).unwrap();
        a.allocate(0, 4, false).unwrap();
        let b = reparsed(&a);
        assert_eq!(b.read_c_string(8).unwrap(), Some("x".to_string()), "c-string cell must have moved from 4 to 8");
        assert_eq!(b.read_pointer(4).unwrap(), None, "nothing may be left at the old address");
    }
    #[test]
    fn deallocate_moves_and_deletes_pending_c_strings() {
        let mut a = BinArchive::new(Endian::Little);
        a.allocate_at_end(16);
        a.write_c_string(4, "gone".to_string()).unwrap();
        a.write_c_string(12, "kept".to_string()).unwrap();
        a.deallocate(4, 4, false).unwrap();
        let b = reparsed(&a);
        assert_eq!(b.read_c_string(8).unwrap(), Some("kept".to_string()));
        assert_eq!(b.read_pointer(4).unwrap(), None);
        assert_eq!(b.read_pointer(0).unwrap(), None);
    }
    #[test]
    fn truncate_drops_pending_c_strings_beyond_the_cut() {
        let mut a = BinArchive::new(Endian::Little);
        a.allocate_at_end(12);
        a.write_c_string(0, "kept".to_string()).unwrap();
        a.write_c_string(8, "gone".to_string()).unwrap();
        a.truncate(4).unwrap();
        let b = reparsed(&a);
        assert_eq!(b.read_c_string(0).unwrap(), Some("kept".to_string()));
    }
}
