// appended to src/text_archive.rs in a scratch copy; `cargo test --offline verif_replay_f10`.
// Before the fix serialize() of an empty Shift-JIS text archive returns
// Err(OutOfBoundsAddress(0, 0)) (write_bytes(0, &[]) on an empty archive); after the fix the
// empty archive round-trips.
#[cfg(test)]
mod verif_replay_f10 {
    use super::*;
    #[test]
    fn empty_shift_jis_archive_round_trips() {
        let t = TextArchive::new(TextArchiveFormat::ShiftJIS, Endian::Big);
        let bytes = t.serialize().expect("serialize empty archive");
        let back = TextArchive::from_bytes(&bytes, TextArchiveFormat::ShiftJIS, Endian::Big).expect("parse");
        assert_eq!(back.get_entries().len(), 0);
    }
}
