// append to src/bin_archive.rs
// F14 (C02): big-endian label table order was not a function of the content: buckets are sorted by name, and two
// addresses carrying the same names kept HashMap iteration order, so equal archives serialized to different bytes
// (and parse -> re-serialize was not byte-stable).
#[cfg(test)]
mod f14_replay {
    use super::*;
    use crate::Endian;
    #[test]
    fn big_endian_labels_with_equal_names_serialize_deterministically() {
        let mut images = std::collections::HashSet::new();
        for round in 0..40 {
            let mut a = BinArchive::new(Endian::Big);
            a.allocate_at_end(64);
            let cells: Vec<usize> = (0..16).map(|i| i * 4).collect();
            for i in 0..16 { let k = if round % 2 == 0 { cells[i] } else { cells[15 - i] }; a.write_label(k, "same").unwrap(); }
            images.insert(a.serialize().unwrap());
        }
        assert_eq!(images.len(), 1, "equal content must serialize to identical bytes");
    }
}
