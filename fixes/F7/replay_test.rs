// append to src/etc1.rs
// F7 (C19): ETC1 differential mode added the sign-extended 3-bit delta to the 5-bit base colour in u8
// (`r + complement(d, 3)`, complement(-1) == 0xFF): every negative delta overflowed, so a build with overflow
// checks panicked where a wrapping build decoded correctly -- "decoding behaves identically with and without
// arithmetic overflow checks".  (cargo test builds with overflow checks on.)
#[cfg(test)]
mod f7_replay {
    use super::*;
    #[test]
    fn differential_block_with_negative_delta_decodes() {
        // base (16, 16, 16), deltas (-1, -1, -1), differential bit set, table 0 for both halves, all modifiers +2
        let px: u64 = (16u64 << 59) | (7u64 << 56) | (16u64 << 51) | (7u64 << 48) | (16u64 << 43) | (7u64 << 40) | (1u64 << 33);
        let mut data = Vec::new();
        for _ in 0..4 { data.extend_from_slice(&px.to_le_bytes()); }
        let out = decode(&data, 8, 8, false).unwrap();
        // left half: base 16 -> 0x84 (+2), right half: base 15 -> 0x7B (+2)
        assert_eq!(&out[0..4], &[0x86, 0x86, 0x86, 0xFF]);
        assert_eq!(&out[8..12], &[0x7D, 0x7D, 0x7D, 0xFF]);
    }
}
