// appended to src/lz13.rs in a scratch copy; `cargo test --offline verif_replay_f6`.
// Before the fix all three panic (index out of bounds / slice start out of range), in debug and
// release; after the fix they return Err(InvalidInput).
#[cfg(test)]
mod verif_replay_f6 {
    use super::*;
    #[test]
    fn decompress_empty_is_error() {
        assert!(LZ13CompressionFormat {}.decompress(&[]).is_err());
    }
    #[test]
    fn decompress_lone_wrapper_byte_is_error() {
        assert!(LZ13CompressionFormat {}.decompress(&[0x13]).is_err());
    }
    #[test]
    fn decompress_short_stored_form_is_error() {
        assert!(LZ13CompressionFormat {}.decompress(&[0, 0]).is_err());
    }
}
