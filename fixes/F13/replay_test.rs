// append to src/bin_archive.rs
// F13 (C01): an archive that mixes strings and pending c-strings serialized to a malformed image: the text
// section start ignored the c-string pool and the c-string pointer cells, so every string pointer pointed
// 4 * (cells + pool words) short and parsed back as garbage.
#[cfg(test)]
mod f13_replay {
    use super::*;
    use crate::Endian;
    #[test]
    fn strings_and_c_strings_mixed_round_trip() {
        for endian in [Endian::Little, Endian::Big] {
            let mut a = BinArchive::new(endian);
            a.allocate_at_end(16);
            a.write_c_string(0, "c0".to_string()).unwrap();
            a.write_string(4, Some("s4")).unwrap();
            a.write_string(8, Some("shared")).unwrap();
            let b = BinArchive::from_bytes(&a.serialize().unwrap(), endian).unwrap();
            assert_eq!(b.read_string(4).unwrap(), Some("s4".to_string()));
            assert_eq!(b.read_string(8).unwrap(), Some("shared".to_string()));
            assert_eq!(b.read_c_string(0).unwrap(), Some("c0".to_string()));
        }
    }
}
