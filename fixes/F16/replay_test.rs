// append to src/bin_archive.rs
// F16 (C03): truncate visited only address, address+4, ... : an annotation beyond the cut whose address is not
// a multiple of four away from it (an end label of a data region whose size is not a multiple of 4) survived.
#[cfg(test)]
mod f16_replay {
    use super::*;
    use crate::Endian;
    #[test]
    fn truncate_removes_unaligned_end_label() {
        let mut a = BinArchive::new(Endian::Little);
        a.allocate_at_end(18);
        a.write_label(18, "END18").unwrap();
        a.truncate(8).unwrap();
        assert_eq!(a.all_labels(), vec![]);
    }
}
