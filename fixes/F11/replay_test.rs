// append to src/bin_archive.rs
// F11 (C03): deallocate computed `address + amount_in_bytes` unchecked.  An out-of-range remove request near the
// integer limit must be rejected with an error and leave the archive unchanged; it panicked instead (debug: add
// overflow; release: the sum wraps to a small value, validation passes and Vec::drain panics on start > end).
#[cfg(test)]
mod f11_replay {
    use super::*;
    use crate::Endian;
    #[test]
    fn deallocate_near_usize_max_is_rejected() {
        let mut a = BinArchive::new(Endian::Little);
        a.allocate_at_end(8);
        let r = std::panic::catch_unwind(std::panic::AssertUnwindSafe(|| a.deallocate(4, usize::MAX - 3, false).is_err()));
        assert_eq!(r.ok(), Some(true), "deallocate(4, usize::MAX-3) must return Err, not panic");
        assert_eq!(a.size(), 8);
    }
}
