// append to src/bin_archive.rs
// F15 (C03): truncate left a label sitting at the old end of the data region (write_label accepts address ==
// size) in place: an annotation beyond the cut survived, and the archive no longer re-parsed after serialize.
#[cfg(test)]
mod f15_replay {
    use super::*;
    use crate::Endian;
    #[test]
    fn truncate_removes_the_end_label() {
        let mut a = BinArchive::new(Endian::Little);
        a.allocate_at_end(16);
        a.write_label(16, "END").unwrap();
        a.write_label(4, "kept").unwrap();
        a.truncate(8).unwrap();
        assert_eq!(a.all_labels(), vec![(4, "kept".to_string())]);
        assert!(BinArchive::from_bytes(&a.serialize().unwrap(), Endian::Little).is_ok());
    }
}
