// appended to src/bin_archive.rs in a scratch copy; `cargo test --offline verif_replay_f2`
// panics ("attempt to add with overflow") before the fix, passes after.  In a release build the
// unfixed code wraps to text_start = 0, accepts the header and requests a 4 GiB buffer for a
// 32-byte input before failing.
#[cfg(test)]
mod verif_replay_f2 {
    use super::*;
    #[test]
    fn header_sum_overflow_is_error_not_panic() {
        let mut bytes = vec![0u8; 0x20];
        bytes[4..8].copy_from_slice(&0xFFFF_FFF0u32.to_le_bytes());   // data size
        bytes[8..12].copy_from_slice(&4u32.to_le_bytes());            // pointer count
        let r = BinArchive::from_bytes(&bytes, Endian::Little);
        assert!(matches!(r, Err(ArchiveError::ArchiveTooSmall)));
    }
}
