// appended to src/arc.rs in a scratch copy; `cargo test --offline verif_replay_f4`
// panics ("attempt to add with overflow") before the fix, passes after; in a release build the
// unfixed code wraps the offset to 0x50 and silently extracts the wrong bytes.
#[cfg(test)]
mod verif_replay_f4 {
    use super::*;
    #[test]
    fn record_offset_overflow_is_error_not_panic() {
        let mut a = BinArchive::new(Endian::Little);
        a.allocate_at_end(0x80);
        a.write_u32(0, 0).unwrap();              // zero first word => 0x60-byte padded header
        a.write_label(4, "Count").unwrap();
        a.write_u32(4, 1).unwrap();
        a.write_label(8, "Info").unwrap();
        a.write_string(8, Some("a")).unwrap();
        a.write_u32(12, 0).unwrap();             // index
        a.write_u32(16, 4).unwrap();             // size
        a.write_u32(20, 0xFFFF_FFF0).unwrap();   // offset: + 0x60 overflows u32
        let bytes = a.serialize().unwrap();
        let r = from_bytes(&bytes);
        assert!(r.is_err());
    }
}
