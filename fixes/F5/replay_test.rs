// appended to src/lz13.rs in a scratch copy; `cargo test --offline verif_replay_f5`.
// Before the fix: debug build panics ("attempt to subtract with overflow"); release build asks
// the allocator for ~2^61 bytes and aborts the process.  After the fix: Ok or Err, no panic.
#[cfg(test)]
mod verif_replay_f5 {
    use super::*;
    #[test]
    fn compress_empty_input_does_not_panic() {
        let r = LZ13CompressionFormat {}.compress(&[]);
        assert!(r.is_ok() || r.is_err());
    }
}
