// appended to src/fe9_arc.rs in a scratch copy; `cargo test --offline verif_replay_f3`.
// Before the fix: bad_magic panics ("not yet implemented"); huge_size asks the allocator for
// 4 GiB on a 40-byte input (run the test binary under `ulimit -v 2000000` to see the abort;
// without a limit it returns Err after the allocation).  After the fix both return Err at once.
#[cfg(test)]
mod verif_replay_f3 {
    use super::*;
    #[test]
    fn bad_magic_is_error_not_panic() {
        assert!(parse(&[0u8, 0, 0, 0, 0, 0, 0, 0]).is_err());
    }
    #[test]
    fn huge_declared_size_is_rejected_before_allocating() {
        let mut raw = vec![0u8; 40];
        raw[0..4].copy_from_slice(&MAGIC.to_be_bytes());
        raw[4..6].copy_from_slice(&1u16.to_be_bytes());          // one file
        raw[12..16].copy_from_slice(&24u32.to_be_bytes());       // name at 24 (a NUL)
        raw[16..20].copy_from_slice(&32u32.to_be_bytes());       // body at 32
        raw[20..24].copy_from_slice(&0xFFFF_FFFFu32.to_be_bytes()); // size 4 GiB - 1
        assert!(parse(&raw).is_err());
    }
}
