use vstd::prelude::*;
use std::io::{Cursor, Read};
verus! {
global size_of usize == 8;
pub enum ArchiveError { IOError, Enc }
#[verifier::external_type_specification]
#[verifier::external_body]
pub struct ExIoError(std::io::Error);
#[verifier::external_type_specification]
#[verifier::external_body]
#[verifier::reject_recursive_types(T)]
pub struct ExCursor<T>(Cursor<T>);
impl From<std::io::Error> for ArchiveError { #[verifier::external_body] fn from(e: std::io::Error) -> Self { ArchiveError::IOError } }
pub enum EncodedStringsError { U }
impl From<EncodedStringsError> for ArchiveError { #[verifier::external_body] fn from(e: EncodedStringsError) -> Self { ArchiveError::Enc } }
type Result<T> = std::result::Result<T, ArchiveError>;

pub assume_specification<T>[ Cursor::<T>::new ](inner: T) -> (c: Cursor<T>);
pub assume_specification<T>[ Cursor::<T>::set_position ](c: &mut Cursor<T>, pos: u64);
pub assume_specification<T: AsRef<[u8]>>[ <Cursor<T> as Read>::read_exact ](c: &mut Cursor<T>, buf: &mut [u8]) -> (r: std::io::Result<()>);

pub struct BigEndian;
pub trait ReadBytesExt {
    fn read_u16<B>(&mut self) -> std::io::Result<u16>;
    fn read_u32<B>(&mut self) -> std::io::Result<u32>;
}
impl<'a> ReadBytesExt for Cursor<&'a [u8]> {
    #[verifier::external_body]
    fn read_u16<B>(&mut self) -> std::io::Result<u16> { unimplemented!() }
    #[verifier::external_body]
    fn read_u32<B>(&mut self) -> std::io::Result<u32> { unimplemented!() }
}


pub trait EncodedStringReader { fn read_shift_jis_string(&mut self) -> std::result::Result<String, EncodedStringsError>; }
impl<'a> EncodedStringReader for Cursor<&'a [u8]> {
    #[verifier::external_body]
    fn read_shift_jis_string(&mut self) -> std::result::Result<String, EncodedStringsError> { unimplemented!() }
}
pub struct IndexMap<K, V> { pub pairs: Vec<(K, V)> }
impl<K, V> IndexMap<K, V> {
    #[verifier::external_body] pub fn new() -> Self { unimplemented!() }
    #[verifier::external_body] pub fn insert(&mut self, k: K, v: V) -> Option<V> { unimplemented!() }
}

const MAGIC: u32 = 0x7061636B;
struct EntryMetadata {
    name_address: u32,
    file_address: u32,
    file_size_unpadded: u32,
}

pub fn parse(raw: &[u8]) -> Result<IndexMap<String, Vec<u8>>> {
    let mut cursor = Cursor::new(raw);

    // Validate magic number.
    let magic = cursor.read_u32::<BigEndian>()?;
    if magic != MAGIC {
        todo!()
    }

    // Retrieve the file count.
    let file_count = cursor.read_u16::<BigEndian>()?;

    // Read entry metadata.
    let mut entry_metadata = Vec::new();
    cursor.set_position(0x8);
    for _ in 0..file_count {
        entry_metadata.push(EntryMetadata::read(&mut cursor)?);
    }

    // Read the files.
    let mut entries: IndexMap<String, Vec<u8>> = IndexMap::new();
    for entry in entry_metadata {
        cursor.set_position(entry.name_address as u64);
        let name = cursor.read_shift_jis_string()?;
        cursor.set_position(entry.file_address as u64);
        let mut contents = vec![0; entry.file_size_unpadded as usize];
        cursor.read_exact(&mut contents)?;
        entries.insert(name, contents);
    }
    Ok(entries)
}

impl EntryMetadata {
    pub fn read(cursor: &mut Cursor<&[u8]>) -> Result<Self> {
        let _unknown = cursor.read_u32::<BigEndian>()?;
        let name_address = cursor.read_u32::<BigEndian>()?;
        let file_address = cursor.read_u32::<BigEndian>()?;
        let file_size_unpadded = cursor.read_u32::<BigEndian>()?;
        Ok(EntryMetadata {
            name_address,
            file_address,
            file_size_unpadded
        })
    }
}
}
fn main() {}
