use vstd::prelude::*;
use std::collections::{HashMap, HashSet};
verus! {

pub enum Endian { Little, Big }
pub enum ArchiveError {
    OutOfBoundsAddress(usize, usize),
    UnalignedValue(usize, usize),
    LabelIndexOutOfBounds(usize, usize),
}
pub assume_specification<T: Clone>[ <T as ToOwned>::to_owned ](x: &T) -> (r: T) ensures vstd::pervasive::cloned::<T>(*x, r);
type Result<T> = std::result::Result<T, ArchiveError>;

pub struct BinArchive {
    pub data: Vec<u8>,
    pub text: HashMap<usize, String>,
    pub pointers: HashMap<usize, usize>,
    pub labels: HashMap<usize, Vec<String>>,
    pub cstrings: HashMap<String, Vec<usize>>,
    pub endian: Endian,
}

fn validate_address(address: usize, size: usize, end_is_valid: bool) -> (r: Result<()>)
    ensures r.is_ok() <==> (if end_is_valid { address <= size } else { address < size }),
{
    if (end_is_valid && address > size) || (!end_is_valid && address >= size) {
        Err(ArchiveError::OutOfBoundsAddress(address, size))
    } else {
        Ok(())
    }
}

impl BinArchive {
    pub fn size(&self) -> (r: usize) ensures r == self.data@.len() {
        self.data.len()
    }

    pub fn read_u8(&self, address: usize) -> Result<u8> {
        validate_address(address, self.size(), false)?;
        Ok(self.data[address])
    }

    pub fn read_pointer(&self, address: usize) -> Result<Option<usize>> {
        validate_address(address, self.size(), false)?;
        validate_address(address + 4, self.size(), true)?;
        Ok(self.pointers.get(&address).map(|x| x.to_owned()))
    }

    pub fn delete_pointer(&mut self, address: usize) -> Result<()> {
        validate_address(address, self.size(), false)?;
        validate_address(address + 4, self.size(), true)?;
        self.pointers.remove(&address);
        Ok(())
    }

    pub fn write_u8(&mut self, address: usize, value: u8) -> Result<()> {
        validate_address(address, self.size(), false)?;
        self.data[address] = value;
        Ok(())
    }

    pub fn write_pointer(&mut self, address: usize, value: Option<usize>) -> Result<()> {
        match value {
            Some(value) => {
                validate_address(address, self.size(), false)?;
                validate_address(address + 4, self.size(), true)?;
                self.pointers.insert(address, value);
                Ok(())
            }
            None => self.delete_pointer(address),
        }
    }

    pub fn write_bytes(&mut self, address: usize, bytes: &[u8]) -> Result<()> {
        validate_address(address, self.size(), false)?;
        validate_address(address + bytes.len(), self.size(), true)?;
        self.data[address..(address + bytes.len())].copy_from_slice(bytes);
        Ok(())
    }

    pub fn read_bytes(&self, address: usize, amount: usize) -> Result<&[u8]> {
        validate_address(address, self.size(), false)?;
        validate_address(address + amount, self.size(), true)?;
        Ok(&self.data[address..(address + amount)])
    }

    pub fn allocate_at_end(&mut self, amount_in_bytes: usize) {
        for _ in 0..amount_in_bytes {
            self.data.push(0);
        }
    }

}
}
fn main() {}
