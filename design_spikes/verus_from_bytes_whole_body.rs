#![feature(allocator_api)]
use vstd::prelude::*;
use std::collections::HashMap;
use std::io::{Cursor, Read, Seek, SeekFrom, Write};
verus! {

#[derive(Debug, Clone, Copy)]
pub enum Endian { Little, Big }

pub enum EndianAwareIOError { ConversionError, IOError }
pub enum EncodedStringsError { UnterminatedString, IOError }
pub enum ArchiveError {
    ArchiveTooSmall,
    OutOfBoundsAddress(usize, usize),
    IOError,
    EndianAwareIOError(EndianAwareIOError),
    EncodingStringsError(EncodedStringsError),
}
impl From<EndianAwareIOError> for ArchiveError {
    fn from(e: EndianAwareIOError) -> (r: Self) { ArchiveError::EndianAwareIOError(e) }
}
impl From<EncodedStringsError> for ArchiveError {
    fn from(e: EncodedStringsError) -> (r: Self) { ArchiveError::EncodingStringsError(e) }
}
impl From<std::io::Error> for ArchiveError {
    #[verifier::external_body]
    fn from(e: std::io::Error) -> (r: Self) { ArchiveError::IOError }
}
type Result<T> = std::result::Result<T, ArchiveError>;

#[verifier::external_type_specification]
#[verifier::external_body]
#[verifier::reject_recursive_types(T)]
pub struct ExCursor<T>(Cursor<T>);

#[verifier::external_type_specification]
#[verifier::external_body]
pub struct ExIoError(std::io::Error);

#[verifier::external_type_specification]
pub struct ExSeekFrom(SeekFrom);

pub uninterp spec fn cursor_pos<T>(c: &Cursor<T>) -> u64;

pub assume_specification<T>[ Cursor::<T>::new ](inner: T) -> (c: Cursor<T>)
    ensures cursor_pos(&c) == 0;
pub assume_specification<T>[ Cursor::<T>::set_position ](c: &mut Cursor<T>, pos: u64)
    ensures cursor_pos(final(c)) == pos;
pub assume_specification<T>[ Cursor::<T>::position ](c: &Cursor<T>) -> (p: u64)
    ensures cursor_pos(c) == p;
pub assume_specification<T: AsRef<[u8]>>[ <Cursor<T> as Seek>::seek ](c: &mut Cursor<T>, pos: SeekFrom) -> (r: std::io::Result<u64>);
pub assume_specification<T: AsRef<[u8]>>[ <Cursor<T> as Read>::read_exact ](c: &mut Cursor<T>, buf: &mut [u8]) -> (r: std::io::Result<()>)
    ensures final(buf)@.len() == old(buf)@.len();

pub trait EndianAwareReader {
    fn read_u32(&mut self, endian: Endian) -> std::result::Result<u32, EndianAwareIOError>;
}
impl<'a> EndianAwareReader for Cursor<&'a [u8]> {
    #[verifier::external_body]
    fn read_u32(&mut self, endian: Endian) -> std::result::Result<u32, EndianAwareIOError> { unimplemented!() }
}
pub trait EncodedStringReader {
    fn read_shift_jis_string(&mut self) -> std::result::Result<String, EncodedStringsError>;
}
impl<'a> EncodedStringReader for Cursor<&'a [u8]> {
    #[verifier::external_body]
    fn read_shift_jis_string(&mut self) -> std::result::Result<String, EncodedStringsError> { unimplemented!() }
}

pub struct BinArchive {
    pub data: Vec<u8>,
    pub text: HashMap<usize, String>,
    pub pointers: HashMap<usize, usize>,
    pub labels: HashMap<usize, Vec<String>>,
    pub cstrings: HashMap<String, Vec<usize>>,
    pub endian: Endian,
}
impl BinArchive {
    #[verifier::external_body]
    pub fn new(endian: Endian) -> (r: Self) ensures r.data@.len() == 0 { unimplemented!() }
    #[verifier::external_body]
    pub fn read_u32(&self, address: usize) -> (r: Result<u32>) { unimplemented!() }
    #[verifier::external_body]
    pub fn write_string(&mut self, address: usize, value: Option<&str>) -> (r: Result<()>) ensures final(self).data@ == old(self).data@ { unimplemented!() }
    #[verifier::external_body]
    pub fn write_pointer(&mut self, address: usize, value: Option<usize>) -> (r: Result<()>) ensures final(self).data@ == old(self).data@ { unimplemented!() }
    #[verifier::external_body]
    pub fn write_label(&mut self, address: usize, label: &str) -> (r: Result<()>) ensures final(self).data@ == old(self).data@ { unimplemented!() }

    pub fn from_bytes(bytes: &[u8], endian: Endian) -> Result<Self> {
        if bytes.len() < 0x20 {
            return Err(ArchiveError::ArchiveTooSmall);
        }
        let mut cursor = Cursor::new(bytes);
        cursor.set_position(4);
        let data_size = cursor.read_u32(endian)?;
        let pointer_count = cursor.read_u32(endian)?;
        let label_count = cursor.read_u32(endian)?;
        let text_start = (data_size + (pointer_count * 4) + (label_count * 8)) as usize;
        if text_start + 0x20 > bytes.len() {
            return Err(ArchiveError::ArchiveTooSmall);
        }

        let mut archive = BinArchive::new(endian);
        cursor.seek(SeekFrom::Start(0x20))?;
        archive.data.resize(data_size as usize, 0);
        cursor.read_exact(&mut archive.data)?;
        for _ in 0..pointer_count {
            let pointer_address = cursor.read_u32(endian)? as usize;
            let pointer_value = archive.read_u32(pointer_address)? as usize;
            if pointer_value > data_size as usize {
                let original_position = cursor.position();
                cursor.seek(SeekFrom::Start((pointer_value + 0x20) as u64))?;
                let string = cursor.read_shift_jis_string()?;
                cursor.seek(SeekFrom::Start(original_position))?;
                archive.write_string(pointer_address, Some(&string))?;
            } else {
                archive.write_pointer(pointer_address, Some(pointer_value))?;
            }
        }

        for _ in 0..label_count {
            let address = cursor.read_u32(endian)?;
            let offset = cursor.read_u32(endian)? as usize;
            let text_address = text_start + offset + 0x20;
            let original_position = cursor.position();
            cursor.seek(SeekFrom::Start(text_address as u64))?;
            let string = cursor.read_shift_jis_string()?;
            cursor.seek(SeekFrom::Start(original_position))?;
            archive.write_label(address as usize, &string)?;
        }
        Ok(archive)
    }
}
}
fn main() {}
