use vstd::prelude::*;
verus! {
pub enum TextArchiveError { MissingKey, ArchiveError, Enc }
pub enum ArchiveError { OutOfBoundsAddress(usize, usize) }
pub enum EncodedStringsError { UnterminatedString }
impl From<ArchiveError> for TextArchiveError { fn from(e: ArchiveError) -> Self { TextArchiveError::ArchiveError } }
impl From<EncodedStringsError> for TextArchiveError { fn from(e: EncodedStringsError) -> Self { TextArchiveError::Enc } }
type Result<T> = std::result::Result<T, TextArchiveError>;
#[derive(Debug, Copy, Clone)]
pub enum TextArchiveFormat { ShiftJIS, Unicode }
#[derive(Debug, Copy, Clone)]
pub enum Endian { Little, Big }

pub struct BinArchive { pub data: Vec<u8> }
impl BinArchive { pub fn size(&self) -> (r: usize) ensures r == self.data@.len() { self.data.len() } }
pub struct BinArchiveReader<'a> { pub archive: &'a BinArchive, pub position: usize }
impl<'a> BinArchiveReader<'a> {
    pub fn new(archive: &'a BinArchive, position: usize) -> (r: Self) ensures r.position == position, r.archive == archive { BinArchiveReader { archive, position } }
    pub fn tell(&self) -> (r: usize) ensures r == self.position { self.position }
    #[verifier::external_body]
    pub fn read_labels(&mut self) -> (r: std::result::Result<Option<Vec<String>>, ArchiveError>)
        ensures final(self).position == old(self).position, final(self).archive == old(self).archive { unimplemented!() }
}
pub trait EncodedStringReader {
    fn read_shift_jis_string(&mut self) -> std::result::Result<String, EncodedStringsError>;
    fn read_utf_16_string(&mut self) -> std::result::Result<String, EncodedStringsError>;
}
impl<'a> EncodedStringReader for BinArchiveReader<'a> {
    #[verifier::external_body]
    fn read_shift_jis_string(&mut self) -> (r: std::result::Result<String, EncodedStringsError>)
        ensures final(self).archive == old(self).archive, r is Ok ==> old(self).position < final(self).position <= final(self).archive.data@.len(),
    { unimplemented!() }
    #[verifier::external_body]
    fn read_utf_16_string(&mut self) -> (r: std::result::Result<String, EncodedStringsError>)
        ensures final(self).archive == old(self).archive, r is Ok ==> old(self).position < final(self).position <= final(self).archive.data@.len(),
    { unimplemented!() }
}

pub struct IndexMap<K, V> { pub keys: Vec<K>, pub vals: Vec<V> }
impl<K, V> IndexMap<K, V> {
    #[verifier::external_body]
    pub fn new() -> (r: Self) { unimplemented!() }
    #[verifier::external_body]
    pub fn insert(&mut self, k: K, v: V) -> (r: Option<V>) { unimplemented!() }
}

pub struct TextArchive {
    pub title: String,
    pub entries: IndexMap<String, String>,
    pub dirty: bool,
    pub format: TextArchiveFormat,
    pub endian: Endian,
}
impl TextArchive {
    pub fn new(format: TextArchiveFormat, endian: Endian) -> Self {
        TextArchive {
            title: "".to_string(),
            entries: IndexMap::new(),
            dirty: false,
            format,
            endian,
        }
    }
    pub fn from_archive(
        archive: &BinArchive,
        format: TextArchiveFormat,
        endian: Endian,
    ) -> Result<Self> {
        let mut reader = BinArchiveReader::new(archive, 0);
        let mut text_archive = TextArchive::new(format, endian);
        if let TextArchiveFormat::Unicode = format {
            text_archive.title = reader.read_shift_jis_string()?;
        }
        while reader.tell() < archive.size()
            invariant reader.archive == archive,
            decreases archive.data@.len() - reader.position,
        {
            let labels = reader.read_labels()?.unwrap_or_else(Vec::new);
            let message = match format {
                TextArchiveFormat::ShiftJIS => reader.read_shift_jis_string()?,
                TextArchiveFormat::Unicode => reader.read_utf_16_string()?,
            };
            if let Some(k) = labels.first() {
                text_archive.entries.insert(k.clone(), message);
            }
        }
        Ok(text_archive)
    }
}
}
fn main() {}
