use vstd::prelude::*;
verus! {

// length of common prefix of s[a..] and s[b..], capped at cap
pub open spec fn cpl(s: Seq<u8>, a: int, b: int, cap: int) -> int
    decreases cap
{
    if cap <= 0 { 0 }
    else if 0 <= a < s.len() && 0 <= b < s.len() && s[a] == s[b] { 1 + cpl(s, a + 1, b + 1, cap - 1) }
    else { 0 }
}

pub proof fn lemma_cpl_exact(s: Seq<u8>, a: int, b: int, cap: int, n: int)
    requires
        0 <= n <= cap, 0 <= a, 0 <= b, a + n <= s.len(), b + n <= s.len(),
        forall|k: int| 0 <= k < n ==> #[trigger] s[a + k] == s[b + k],
        n < cap ==> (a + n >= s.len() || b + n >= s.len() || s[a + n] != s[b + n]),
    ensures cpl(s, a, b, cap) == n,
    decreases n
{
    if n == 0 {
    } else {
        assert(s[a + 0] == s[b + 0]);
        assert forall|k: int| 0 <= k < n - 1 implies #[trigger] s[(a + 1) + k] == s[(b + 1) + k] by {
            assert(s[a + (k + 1)] == s[b + (k + 1)]);
        }
        lemma_cpl_exact(s, a + 1, b + 1, cap - 1, n - 1);
    }
}

pub proof fn lemma_cpl_le_cap(s: Seq<u8>, a: int, b: int, cap: int)
    ensures cpl(s, a, b, cap) <= (if cap < 0 { 0 } else { cap }),  cpl(s, a, b, cap) >= 0
    decreases cap
{
    if cap > 0 && 0 <= a < s.len() && 0 <= b < s.len() && s[a] == s[b] { lemma_cpl_le_cap(s, a + 1, b + 1, cap - 1); }
}

pub(crate) fn get_occurrence_length(
    bytes: &[u8],
    new_ptr: usize,
    new_length: usize,
    old_ptr: usize,
    old_length: usize,
) -> (r: (i32, usize))
    requires
        old_ptr + old_length == new_ptr,
        new_ptr + new_length <= bytes@.len(),
        new_length <= 0x7fff_ffff,
        bytes@.len() <= usize::MAX,
    ensures
        0 <= r.0 <= new_length,
        r.0 > 0 ==> 2 <= r.1 <= old_length,
        r.0 > 0 ==> forall|j: int| 0 <= j < r.0 ==> #[trigger] bytes@[new_ptr - r.1 + j] == bytes@[new_ptr + j],
        forall|src: int| old_ptr <= src <= new_ptr - 2 ==> #[trigger] cpl(bytes@, src, new_ptr as int, new_length as int) <= r.0,
{
    if new_length == 0 || old_length == 0 {
        proof { assert forall|src: int| old_ptr <= src <= new_ptr - 2 implies #[trigger] cpl(bytes@, src, new_ptr as int, new_length as int) <= 0 by { lemma_cpl_le_cap(bytes@, src, new_ptr as int, new_length as int); } }
        return (0, 0);
    }

    let mut disp = 0;
    let mut max_length = 0;
    for i in 0..(old_length - 1)
        invariant_except_break
            forall|src: int| old_ptr <= src < old_ptr + i ==> #[trigger] cpl(bytes@, src, new_ptr as int, new_length as int) <= max_length,
        invariant
            old_ptr + old_length == new_ptr,
            new_ptr + new_length <= bytes@.len(),
            new_length <= 0x7fff_ffff,
            new_length > 0, old_length > 0, bytes@.len() <= usize::MAX,
            0 <= max_length <= new_length,
            max_length > 0 ==> 2 <= disp <= old_length,
            max_length > 0 ==> forall|j: int| 0 <= j < max_length ==> #[trigger] bytes@[new_ptr - disp + j] == bytes@[new_ptr + j],
        ensures
            forall|src: int| old_ptr <= src <= new_ptr - 2 ==> #[trigger] cpl(bytes@, src, new_ptr as int, new_length as int) <= max_length,
    {
        let current_old_start = old_ptr + i;
        let mut current_length = 0;
        for j in 0..new_length
            invariant_except_break
                current_length == j,
            invariant
                current_old_start == old_ptr + i,
                i < old_length - 1,
                bytes@.len() <= usize::MAX,
                old_ptr + old_length == new_ptr,
                new_ptr + new_length <= bytes@.len(),
                0 <= current_length <= new_length,
                forall|k: int| 0 <= k < current_length ==> #[trigger] bytes@[current_old_start + k] == bytes@[new_ptr + k],
            ensures
                current_length < new_length ==> bytes@[current_old_start + current_length] != bytes@[new_ptr + current_length],
        {
            if bytes[current_old_start + j] != bytes[new_ptr + j] {
                break;
            }
            current_length += 1;
        }
        proof {
            lemma_cpl_exact(bytes@, current_old_start as int, new_ptr as int, new_length as int, current_length as int);
        }
        if current_length > max_length {
            max_length = current_length;
            disp = old_length - i;
            if max_length == new_length {
                proof { assert forall|src: int| old_ptr <= src <= new_ptr - 2 implies #[trigger] cpl(bytes@, src, new_ptr as int, new_length as int) <= max_length by { lemma_cpl_le_cap(bytes@, src, new_ptr as int, new_length as int); } }
                break;
            }
        }
    }
    (max_length as i32, disp)
}

}
fn main() {}
