#![feature(allocator_api)]
use vstd::prelude::*;
use core::ops::{IndexMut, Index, Range};
use core::alloc::Allocator;
use core::slice::SliceIndex;
verus! {
pub uninterp spec fn idx_lo<I>(i: I) -> int;
pub uninterp spec fn idx_hi<I>(i: I) -> int;
pub uninterp spec fn out_seq<O: ?Sized, T>(o: &O) -> Seq<T>;

#[verifier::external_body]
pub broadcast proof fn axiom_range_bounds(r: Range<usize>)
    ensures #[trigger] idx_lo::<Range<usize>>(r) == r.start, #[trigger] idx_hi::<Range<usize>>(r) == r.end {}
#[verifier::external_body]
pub broadcast proof fn axiom_out_seq_slice<T>(o: &[T])
    ensures #[trigger] out_seq::<[T], T>(o) == o@ {}

pub assume_specification<'a, T, I: SliceIndex<[T]>, A: Allocator>[ <Vec<T, A> as IndexMut<I>>::index_mut ](v: &'a mut Vec<T, A>, index: I) -> (r: &'a mut <Vec<T, A> as Index<I>>::Output)
    ensures
        0 <= idx_lo::<I>(index) <= idx_hi::<I>(index) <= old(v)@.len() ==>
        out_seq::<<Vec<T, A> as Index<I>>::Output, T>(r) == old(v)@.subrange(idx_lo::<I>(index), idx_hi::<I>(index)),
        0 <= idx_lo::<I>(index) <= idx_hi::<I>(index) <= old(v)@.len() ==>
        final(v)@ == old(v)@.subrange(0, idx_lo::<I>(index)) + out_seq::<<Vec<T, A> as Index<I>>::Output, T>(final(r)) + old(v)@.subrange(idx_hi::<I>(index), old(v)@.len() as int);

fn t2(v: &mut Vec<u8>, a: usize, src: &[u8])
    requires a + 4 <= old(v)@.len(), src@.len() == 4, old(v)@.len() < 1000,
    ensures final(v)@ =~= old(v)@.subrange(0, a as int) + src@ + old(v)@.subrange(a + 4, old(v)@.len() as int),
{
    broadcast use axiom_range_bounds, axiom_out_seq_slice;
    v[a..a + 4].copy_from_slice(src);
}
}
fn main() {}
