use vstd::prelude::*;
verus! {
pub enum ArchiveError { OutOfBoundsAddress(usize, usize) }
type Result<T> = std::result::Result<T, ArchiveError>;

#[derive(Default, Debug, Clone)]
pub struct AssetSpec {
    pub name: Option<String>,
    pub conditional1: Option<String>,
    pub hair_color: [u8; 4],
    pub use_hair_color: bool,
    pub model_size: f32,
    pub use_model_size: bool,
    pub unk3: u32,
    pub use_unk3: bool,
}
pub struct BinArchiveReader { pub position: usize }
impl BinArchiveReader {
    #[verifier::external_body]
    pub fn read_u8(&mut self) -> (r: Result<u8>) { unimplemented!() }
    #[verifier::external_body]
    pub fn read_u32(&mut self) -> (r: Result<u32>) { unimplemented!() }
    #[verifier::external_body]
    pub fn read_f32(&mut self) -> (r: Result<f32>) { unimplemented!() }
    #[verifier::external_body]
    pub fn read_bytes(&mut self, count: usize) -> (r: Result<Vec<u8>>) ensures r matches Ok(v) ==> v@.len() == count { unimplemented!() }
    #[verifier::external_body]
    pub fn read_string(&mut self) -> (r: Result<Option<String>>) { unimplemented!() }
}

fn read_flag_str(
    reader: &mut BinArchiveReader,
    flags: &[u8],
    index: usize,
) -> Result<Option<String>> {
    let byte = index / 8;
    let bit_index = index % 8;
    if byte >= flags.len() || (flags[byte] & (1 << bit_index)) == 0 {
        Ok(None)
    } else {
        reader.read_string()
    }
}

fn read_color(reader: &mut BinArchiveReader) -> Result<[u8; 4]> {
    let mut arr: [u8; 4] = [0, 0, 0, 0];
    let bytes = reader.read_bytes(4)?;
    arr.copy_from_slice(&bytes);
    arr.swap(2, 0);
    Ok(arr)
}

impl AssetSpec {
    pub fn new() -> Self {
        AssetSpec {
            ..Default::default()
        }
    }

    pub fn from_stream(reader: &mut BinArchiveReader) -> Result<Self> {
        let mut flag_count = 3;
        let raw = reader.read_u8()?;
        if (raw & 0b1) == 1 {
            flag_count += 4;
        }
        let mut flags = vec![raw];
        flags.extend(reader.read_bytes(flag_count)?);

        let mut spec = AssetSpec::new();
        spec.name = reader.read_string()?;
        spec.conditional1 = read_flag_str(reader, &flags, 1)?;
        if flag_count > 3 {
            if (flags[4] & 0b100) != 0 {
                spec.use_hair_color = true;
                spec.hair_color = read_color(reader)?;
            }
            if (flags[4] & 0b100000) != 0 {
                spec.use_model_size = true;
                spec.model_size = reader.read_f32()?;
            }
            if (flags[5] & 0b1) != 0 {
                spec.unk3 = reader.read_u32()?;
                spec.use_unk3 = true;
            }
        }
        Ok(spec)
    }
}
}
fn main() {}
