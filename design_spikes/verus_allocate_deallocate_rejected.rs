#![feature(allocator_api)]
use vstd::prelude::*;
use std::collections::HashMap;
verus! {

use core::alloc::Allocator;
use core::ops::{Range, RangeBounds};
#[verifier::external_type_specification]
#[verifier::external_body]
#[verifier::reject_recursive_types(T)]
#[verifier::reject_recursive_types(A)]
pub struct ExDrain<'a, T: 'a, A: Allocator + 'a>(std::vec::Drain<'a, T, A>);

pub assume_specification<'a, T, A: Allocator, R: RangeBounds<usize>>[ Vec::<T, A>::drain::<R> ](v: &'a mut Vec<T, A>, range: R) -> (r: std::vec::Drain<'a, T, A>);

pub enum ArchiveError { OutOfBoundsAddress(usize, usize), UnalignedValue(usize, usize) }
type Result<T> = std::result::Result<T, ArchiveError>;

pub struct BinArchive {
    pub data: Vec<u8>,
    pub text: HashMap<usize, String>,
    pub pointers: HashMap<usize, usize>,
    pub labels: HashMap<usize, Vec<String>>,
    pub cstrings: HashMap<String, Vec<usize>>,
}
#[verifier::external_body]
fn validate_address(address: usize, size: usize, end_is_valid: bool) -> (r: Result<()>) { unimplemented!() }
#[verifier::external_body]
fn validate_alignment(value: usize, bytes: usize) -> (r: Result<()>) { unimplemented!() }
#[verifier::external_body]
fn adjust_text<T: Clone>(map: &HashMap<usize, T>, address: usize, count: usize, subtract: bool) -> HashMap<usize, T> { unimplemented!() }
#[verifier::external_body]
fn adjust_labels<T: Clone>(map: &HashMap<usize, T>, address: usize, count: usize, subtract: bool, ge: bool) -> HashMap<usize, T> { unimplemented!() }
#[verifier::external_body]
fn adjust_pointers(map: &HashMap<usize, usize>, address: usize, count: usize, subtract: bool, ge: bool) -> HashMap<usize, usize> { unimplemented!() }
#[verifier::external_body]
fn filter_text_or_labels<T: Clone>(map: &HashMap<usize, T>, address: usize, count: usize) -> HashMap<usize, T> { unimplemented!() }
#[verifier::external_body]
fn filter_pointers(map: &HashMap<usize, usize>, address: usize, count: usize) -> HashMap<usize, usize> { unimplemented!() }

impl BinArchive {
    pub fn size(&self) -> (r: usize) ensures r == self.data@.len() { self.data.len() }

    pub fn deallocate(&mut self, address: usize, amount_in_bytes: usize, ge: bool) -> Result<()> {
        validate_address(address, self.size(), false)?;
        validate_address(address + amount_in_bytes, self.size(), true)?;
        validate_alignment(address, 4)?;
        validate_alignment(amount_in_bytes, 4)?;
        self.data.drain(address..(address + amount_in_bytes));
        let filtered_text = filter_text_or_labels(&self.text, address, amount_in_bytes);
        let filtered_labels = filter_text_or_labels(&self.labels, address, amount_in_bytes);
        let filtered_pointers = filter_pointers(&self.pointers, address, amount_in_bytes);
        let new_text = adjust_text(&filtered_text, address, amount_in_bytes, true);
        let new_labels = adjust_labels(&filtered_labels, address, amount_in_bytes, true, ge);
        let new_pointers = adjust_pointers(&filtered_pointers, address, amount_in_bytes, true, ge);
        self.text = new_text;
        self.labels = new_labels;
        self.pointers = new_pointers;
        Ok(())
    }
}
}
fn main() {}
