use vstd::prelude::*;
use std::io::Read;
verus! {

#[verifier::external_type_specification]
#[verifier::external_body]
pub struct ExIoError(std::io::Error);

#[verifier::external_trait_specification]
pub trait ExRead {
    type ExternalTraitSpecificationFor: std::io::Read;
}

pub struct LittleEndian;
pub trait ReadBytesExt {
    fn read_u8(&mut self) -> std::io::Result<u8>;
    fn read_u32<B>(&mut self) -> std::io::Result<u32>;
}
impl<R: Read + ?Sized> ReadBytesExt for R {
    #[verifier::external_body]
    fn read_u8(&mut self) -> std::io::Result<u8> { unimplemented!() }
    #[verifier::external_body]
    fn read_u32<B>(&mut self) -> std::io::Result<u32> { unimplemented!() }
}

pub enum DErr { Io, Magic }
impl From<std::io::Error> for DErr { #[verifier::external_body] fn from(e: std::io::Error) -> Self { DErr::Io } }

pub fn decompress(inp: &mut dyn Read) -> Result<Vec<u8>, DErr> {
    let mut length = inp.read_u32::<LittleEndian>()? as usize;
    let ver = match length & 0xFF {
        0x10 => Ok(0),
        0x11 => Ok(1),
        _ => Err(DErr::Magic)
    }?;
    length >>= 8;
    if length == 0 && ver == 1 {
        length = inp.read_u32::<LittleEndian>()? as usize;
    }
    let mut out: Vec<u8> = Vec::new();
    out.reserve(length);
    while out.len() < length {
        let byte = inp.read_u8()?;
        for bit_no in (0..8).rev() {
            if out.len() >= length {
                break;
            }
            if ((byte >> bit_no) & 1) == 0 {
                let data = inp.read_u8()?;
                out.push(data);
            } else {
                let lenmsb = inp.read_u8()? as usize;
                let lsb = inp.read_u8()? as usize;
                let mut length: usize = lenmsb >> 4;
                let mut disp: usize = ((lenmsb & 15) << 8) + lsb;
                if ver == 0 {
                    length += 3;
                } else if length > 1 {
                    length += 1;
                } else if length == 0 {
                    length = (lenmsb & 15) << 4;
                    length += lsb >> 4;
                    length += 0x11;
                    let msb = inp.read_u8()? as usize;
                    disp = ((lsb & 15) << 8) + msb;
                } else {
                    length = (lenmsb & 15) << 12;
                    length += lsb << 4;
                    let byte1 = inp.read_u8()? as usize;
                    let byte2 = inp.read_u8()? as usize;
                    length += byte1 >> 4;
                    length += 0x111;
                    disp = ((byte1 & 15) << 8) + byte2;
                }
                let start: usize = out.len() - disp - 1;

                for i in 0..length {
                    let val = out[start + i];
                    out.push(val);
                }
            }
        }
    }
    Ok(out)
}
}
fn main() {}
