#![feature(allocator_api)]
use vstd::prelude::*;
use std::collections::HashMap;
use std::borrow::Borrow;
use std::hash::{Hash, BuildHasher};
use core::alloc::Allocator;
use vstd::std_specs::hash::*;
verus! {

pub assume_specification<'a, K: Eq + Hash, V, S: BuildHasher, A: Allocator, Q: Hash + Eq + ?Sized>[ HashMap::<K, V, S, A>::get_mut::<Q> ](m: &'a mut HashMap<K, V, S, A>, k: &Q) -> (r: Option<&'a mut V>)
  where K: Borrow<Q>
  ensures
    obeys_key_model::<K>() && builds_valid_hashers::<S>() ==> match r {
        Some(v) => contains_borrowed_key(old(m)@, k) && maps_borrowed_key_to_value(old(m)@, k, *v)
             && final(m)@.dom() == old(m)@.dom()
             && (forall|kk: K| old(m)@.contains_key(kk) ==> (if borrowed_key_removed(old(m)@, old(m)@.remove(kk), k) { final(m)@[kk] == *final(v) } else { final(m)@[kk] == old(m)@[kk] })),
        None => !contains_borrowed_key(old(m)@, k) && final(m)@ == old(m)@,
    };

pub struct A { pub labels: HashMap<usize, Vec<u8>> }
impl A {
    pub fn write_label(&mut self, address: usize, label: u8)
        ensures
            final(self).labels@.dom() == old(self).labels@.dom().insert(address),
            forall|a: usize| a != address && old(self).labels@.contains_key(a) ==> final(self).labels@[a] == old(self).labels@[a],
            final(self).labels@[address]@ == (if old(self).labels@.contains_key(address) { old(self).labels@[address]@.push(label) } else { seq![label] }),
    {
        match self.labels.get_mut(&address) {
            Some(bucket) => {
                bucket.push(label);
            }
            None => {
                self.labels.insert(address, vec![label]);
            }
        }
    }
}
}
fn main() {}
