#![feature(pattern)]
use vstd::prelude::*;
use core::str::pattern::Pattern;
verus! {

// ---- stand-in for indexmap::IndexMap<String,String> (assumed contract) ----
pub struct IndexMap<K, V> { pub keys: Vec<K>, pub vals: Vec<V> }
pub struct Entry<'a, K, V> { pub map: &'a mut IndexMap<K, V>, pub key: K }

impl<K, V> IndexMap<K, V> {
    pub open spec fn wf(&self) -> bool { self.keys@.len() == self.vals@.len() }
    #[verifier::external_body]
    pub fn new() -> (r: Self) ensures r.keys@.len() == 0, r.vals@.len() == 0 { unimplemented!() }
}
impl IndexMap<String, String> {
    pub open spec fn index_of(&self, k: Seq<char>) -> Option<int> {
        if exists|i: int| 0 <= i < self.keys@.len() && self.keys@[i]@ == k { Some(choose|i: int| 0 <= i < self.keys@.len() && self.keys@[i]@ == k) } else { None }
    }
    #[verifier::external_body]
    pub fn contains_key(&self, k: &str) -> (r: bool) ensures r == self.index_of(k@).is_some() { unimplemented!() }
    #[verifier::external_body]
    pub fn get(&self, k: &str) -> (r: Option<&String>)
        ensures match self.index_of(k@) { Some(i) => r == Some(&self.vals@[i]), None => r.is_none() } { unimplemented!() }
    #[verifier::external_body]
    pub fn shift_remove(&mut self, k: &str) -> (r: Option<String>)
        ensures match old(self).index_of(k@) {
            Some(i) => final(self).keys@ == old(self).keys@.remove(i) && final(self).vals@ == old(self).vals@.remove(i),
            None => final(self).keys@ == old(self).keys@ && final(self).vals@ == old(self).vals@ } { unimplemented!() }
    #[verifier::external_body]
    pub fn entry<'a>(&'a mut self, key: String) -> (r: Entry<'a, String, String>) { unimplemented!() }
}
impl<'a> Entry<'a, String, String> {
    #[verifier::external_body]
    pub fn or_default(self) -> (r: &'a mut String) { unimplemented!() }
}

pub uninterp spec fn spec_replace<P>(s: Seq<char>, from: P, to: Seq<char>) -> Seq<char>;
pub assume_specification<P: Pattern>[ str::replace::<P> ](s: &str, from: P, to: &str) -> (r: String)
    ensures r@ == spec_replace::<P>(s@, from, to@);

pub struct TextArchive {
    pub title: String,
    pub entries: IndexMap<String, String>,
    pub dirty: bool,
}

impl TextArchive {
    pub fn has_message(&self, key: &str) -> bool {
        self.entries.contains_key(key)
    }

    pub fn delete_message(&mut self, key: &str) {
        self.entries.shift_remove(key);
    }

    pub fn set_message(&mut self, key: &str, message: &str) {
        let message = message.replace("\\n", "\n");
        let entry = self.entries.entry(key.to_string()).or_default();
        *entry = message;
        self.dirty = true;
    }

    pub fn is_dirty(&self) -> bool {
        self.dirty
    }
}
}
fn main() {}
