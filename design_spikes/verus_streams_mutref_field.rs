use vstd::prelude::*;
verus! {
pub enum ArchiveError { OutOfBoundsAddress(usize, usize) }
type Result<T> = std::result::Result<T, ArchiveError>;
pub struct BinArchive { pub data: Vec<u8> }
impl BinArchive {
    pub fn size(&self) -> (r: usize) ensures r == self.data@.len() { self.data.len() }
    #[verifier::external_body]
    pub fn read_u16(&self, address: usize) -> (r: Result<u16>) { unimplemented!() }
    #[verifier::external_body]
    pub fn write_u16(&mut self, address: usize, value: u16) -> (r: Result<()>) { unimplemented!() }
    #[verifier::external_body]
    pub fn allocate_at_end(&mut self, amount: usize) { unimplemented!() }
}

pub struct BinArchiveReader<'a> {
    archive: &'a BinArchive,
    position: usize,
}

pub struct BinArchiveWriter<'a> {
    archive: &'a mut BinArchive,
    position: usize,
}

impl<'a> BinArchiveReader<'a> {
    pub fn new(archive: &'a BinArchive, position: usize) -> Self {
        BinArchiveReader { archive, position }
    }
    pub fn skip(&mut self, amount: usize) {
        self.position += amount;
    }
    pub fn read_u16(&mut self) -> Result<u16> {
        let value = self.archive.read_u16(self.position)?;
        self.position += 2;
        Ok(value)
    }
    pub fn read_i16(&mut self) -> Result<i16> {
        let value = self.read_u16()?;
        Ok(value as i16)
    }
}
impl<'a> BinArchiveWriter<'a> {
    pub fn new(archive: &'a mut BinArchive, position: usize) -> Self {
        BinArchiveWriter { archive, position }
    }
    pub fn write_u16(&mut self, value: u16) -> Result<()> {
        self.archive.write_u16(self.position, value)?;
        self.position += 2;
        Ok(())
    }
    pub fn allocate_at_end(&mut self, amount: usize) {
        self.archive.allocate_at_end(amount)
    }
}
}
fn main() {}
