use vstd::prelude::*;
verus! {
pub enum TextArchiveError { A }
type Result<T> = std::result::Result<T, TextArchiveError>;
#[derive(Debug, Copy, Clone)]
pub enum TextArchiveFormat { ShiftJIS, Unicode }
#[derive(Debug, Copy, Clone)]
pub enum Endian { Little, Big }

pub struct IndexMap<K, V> { pub pairs: Vec<(K, V)> }
impl<'a, K, V> IntoIterator for &'a IndexMap<K, V> {
    type Item = &'a (K, V);
    type IntoIter = std::slice::Iter<'a, (K, V)>;
    #[verifier::external_body]
    fn into_iter(self) -> (r: std::slice::Iter<'a, (K, V)>) { self.pairs.iter() }
}

pub struct BinArchive { pub data: Vec<u8> }
impl BinArchive {
    #[verifier::external_body] pub fn new(endian: Endian) -> Self { unimplemented!() }
    #[verifier::external_body] pub fn allocate_at_end(&mut self, n: usize) { unimplemented!() }
    #[verifier::external_body] pub fn write_bytes(&mut self, a: usize, b: &[u8]) -> std::result::Result<(), TextArchiveError> { unimplemented!() }
    #[verifier::external_body] pub fn write_label(&mut self, a: usize, l: &str) -> std::result::Result<(), TextArchiveError> { unimplemented!() }
    #[verifier::external_body] pub fn serialize(&self) -> std::result::Result<Vec<u8>, TextArchiveError> { unimplemented!() }
}
#[verifier::external_body]
fn write_shift_jis_string(bytes: &mut Vec<u8>, string: &str) -> Result<()> { unimplemented!() }
#[verifier::external_body]
fn write_utf_16_string(bytes: &mut Vec<u8>, string: &str) -> Result<()> { unimplemented!() }

pub struct TextArchive {
    pub title: String,
    pub entries: IndexMap<String, String>,
    pub dirty: bool,
    pub format: TextArchiveFormat,
    pub endian: Endian,
}
impl TextArchive {
    pub fn serialize(&self) -> Result<Vec<u8>> {
        let mut bytes: Vec<u8> = Vec::new();
        let mut label_info: Vec<(&String, usize)> = Vec::new();

        // Early versions of the format don't have a title.
        if let TextArchiveFormat::Unicode = self.format {
            write_shift_jis_string(&mut bytes, &self.title)?;
        }
        for (key, value) in &self.entries {
            label_info.push((key, bytes.len()));
            match self.format {
                TextArchiveFormat::ShiftJIS => write_shift_jis_string(&mut bytes, value)?,
                TextArchiveFormat::Unicode => write_utf_16_string(&mut bytes, value)?,
            }
        }

        let mut archive = BinArchive::new(self.endian);
        archive.allocate_at_end(bytes.len());
        archive.write_bytes(0, &bytes)?;
        for (label, address) in label_info {
            archive.write_label(address, label)?;
        }
        let bytes = archive.serialize()?;
        Ok(bytes)
    }
}
}
fn main() {}
