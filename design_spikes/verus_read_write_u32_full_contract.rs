#![feature(allocator_api)]
use vstd::prelude::*;
use std::collections::HashMap;
verus! {
global size_of usize == 8;

#[derive(Debug, Clone, Copy)]
pub enum Endian { Little, Big }
pub enum EndianAwareIOError { ConversionError, IOError }
pub enum ArchiveError {
    OutOfBoundsAddress(usize, usize),
    UnalignedValue(usize, usize),
    EndianAwareIOError(EndianAwareIOError),
}
impl vstd::std_specs::convert::FromSpecImpl<EndianAwareIOError> for ArchiveError {
    open spec fn obeys_from_spec() -> bool { true }
    open spec fn from_spec(e: EndianAwareIOError) -> Self { ArchiveError::EndianAwareIOError(e) }
}
impl From<EndianAwareIOError> for ArchiveError {
    fn from(e: EndianAwareIOError) -> (r: Self) { ArchiveError::EndianAwareIOError(e) }
}
type Result<T> = std::result::Result<T, ArchiveError>;

pub open spec fn dec_u32(e: Endian, b: Seq<u8>) -> u32 {
    match e {
        Endian::Little => (b[0] as u32) | ((b[1] as u32) << 8) | ((b[2] as u32) << 16) | ((b[3] as u32) << 24),
        Endian::Big => (b[3] as u32) | ((b[2] as u32) << 8) | ((b[1] as u32) << 16) | ((b[0] as u32) << 24),
    }
}
pub open spec fn enc_u32(e: Endian, v: u32) -> Seq<u8> {
    match e {
        Endian::Little => seq![(v & 0xff) as u8, ((v >> 8) & 0xff) as u8, ((v >> 16) & 0xff) as u8, ((v >> 24) & 0xff) as u8],
        Endian::Big => seq![((v >> 24) & 0xff) as u8, ((v >> 16) & 0xff) as u8, ((v >> 8) & 0xff) as u8, (v & 0xff) as u8],
    }
}
impl Endian {
    #[verifier::external_body]
    pub fn decode_u32(&self, bytes: &[u8]) -> (r: std::result::Result<u32, EndianAwareIOError>)
        ensures bytes@.len() == 4 ==> r == Ok::<u32, EndianAwareIOError>(dec_u32(*self, bytes@)),
                bytes@.len() != 4 ==> r is Err,
    { unimplemented!() }
    #[verifier::external_body]
    pub fn encode_u32(&self, value: u32) -> (r: Vec<u8>)
        ensures r@ == enc_u32(*self, value)
    { unimplemented!() }
}

pub struct BinArchive {
    pub data: Vec<u8>,
    pub text: HashMap<usize, String>,
    pub pointers: HashMap<usize, usize>,
    pub labels: HashMap<usize, Vec<String>>,
    pub cstrings: HashMap<String, Vec<usize>>,
    pub endian: Endian,
}

#[verifier::external_body]
pub proof fn axiom_vec_len(v: &Vec<u8>) ensures v@.len() <= isize::MAX {}

fn validate_address(address: usize, size: usize, end_is_valid: bool) -> (r: Result<()>)
    ensures r is Ok <==> (if end_is_valid { address <= size } else { address < size }),
            r matches Err(e) ==> e == ArchiveError::OutOfBoundsAddress(address, size),
{
    if (end_is_valid && address > size) || (!end_is_valid && address >= size) {
        Err(ArchiveError::OutOfBoundsAddress(address, size))
    } else {
        Ok(())
    }
}

impl BinArchive {
    pub open spec fn same_annotations(&self, o: &BinArchive) -> bool {
        self.text@ == o.text@ && self.pointers@ == o.pointers@ && self.labels@ == o.labels@ && self.cstrings@ == o.cstrings@ && self.endian == o.endian
    }
    pub fn size(&self) -> (r: usize) ensures r == self.data@.len(), r <= isize::MAX {
        proof { axiom_vec_len(&self.data); }
        self.data.len()
    }

    pub fn read_u32(&self, address: usize) -> (r: Result<u32>)
        ensures
            r is Ok <==> address + 4 <= self.data@.len(),
            r matches Ok(v) ==> v == dec_u32(self.endian, self.data@.subrange(address as int, address + 4)),
            r matches Err(e) ==> e is OutOfBoundsAddress,
    {
        validate_address(address, self.size(), false)?;
        validate_address(address + 4, self.size(), true)?;
        Ok(self.endian.decode_u32(&self.data[address..address + 4])?)
    }

    pub fn write_u32(&mut self, address: usize, value: u32) -> (r: Result<()>)
        ensures
            r is Ok <==> address + 4 <= old(self).data@.len(),
            r is Ok ==> final(self).data@ =~= old(self).data@.subrange(0, address as int) + enc_u32(old(self).endian, value) + old(self).data@.subrange(address + 4, old(self).data@.len() as int),
            r is Err ==> final(self).data@ == old(self).data@,
            final(self).same_annotations(old(self)),
    {
        validate_address(address, self.size(), false)?;
        validate_address(address + 4, self.size(), true)?;
        let bytes = self.endian.encode_u32(value);
        proof { assert(enc_u32(self.endian, value).len() == 4); assert(bytes@.len() == 4); assert(address + 4 <= self.data@.len()); }
        self.data[address..address + 4].copy_from_slice(&bytes);
        Ok(())
    }
}
}
fn main() {}
