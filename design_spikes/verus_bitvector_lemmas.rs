use vstd::prelude::*;
verus! {
proof fn lemma_hi_nibble(l: i32)
    by (bit_vector)
    requires 0 <= l <= 15
    ensures ((l << 4) & 0xF0) == l * 16, 0 <= ((l << 4) & 0xF0) <= 240
{}
proof fn lemma_disp_hi(d: usize)
    by (bit_vector)
    requires d < 4096
    ensures ((d >> 8) & 0x0F) == d / 256, ((d >> 8) & 0x0F) < 16, (d & 0xFF) == d % 256
{}
proof fn lemma_or_add(a: u8, b: u8)
    by (bit_vector)
    requires a & 0x0F == 0, b < 16
    ensures a | b == a + b
{}
proof fn lemma_len_bytes(n: usize)
    by (bit_vector)
    requires n < 0x100_0000
    ensures (n & 0xFF) == n % 256, ((n >> 8) & 0xFF) == (n / 256) % 256, ((n >> 16) & 0xFF) == (n / 65536) % 256
{}
proof fn lemma_flag_or(x: u8, bb: i32)
    requires 0 <= bb < 8, (x as int) % (2 * pw(7 - bb)) == 0,
    ensures ({ let m = (1i32 << (7 - bb)); 0 < m <= 128 && (x | (m as u8)) as int == x as int + pw(7 - bb) && m as int == pw(7 - bb) })
{
    if bb == 0 { assert((1i32 << 7) == 128) by(bit_vector); assert(x == 0 ==> (x | 128u8) == x + 128) by(bit_vector); }
    else if bb == 1 { assert((1i32 << 6) == 64) by(bit_vector); assert(x % 128 == 0 ==> (x | 64u8) == x + 64) by(bit_vector); }
    else if bb == 2 { assert((1i32 << 5) == 32) by(bit_vector); assert(x % 64 == 0 ==> (x | 32u8) == x + 32) by(bit_vector); }
    else if bb == 3 { assert((1i32 << 4) == 16) by(bit_vector); assert(x % 32 == 0 ==> (x | 16u8) == x + 16) by(bit_vector); }
    else if bb == 4 { assert((1i32 << 3) == 8) by(bit_vector); assert(x % 16 == 0 ==> (x | 8u8) == x + 8) by(bit_vector); }
    else if bb == 5 { assert((1i32 << 2) == 4) by(bit_vector); assert(x % 8 == 0 ==> (x | 4u8) == x + 4) by(bit_vector); }
    else if bb == 6 { assert((1i32 << 1) == 2) by(bit_vector); assert(x % 4 == 0 ==> (x | 2u8) == x + 2) by(bit_vector); }
    else { assert((1i32 << 0) == 1) by(bit_vector); assert(x % 2 == 0 ==> (x | 1u8) == x + 1) by(bit_vector); }
}
pub open spec fn pw(e: int) -> int {
    if e == 0 { 1 } else if e == 1 { 2 } else if e == 2 { 4 } else if e == 3 { 8 } else if e == 4 { 16 } else if e == 5 { 32 } else if e == 6 { 64 } else if e == 7 { 128 } else { 256 }
}
}
fn main() {}
