use vstd::prelude::*;
use std::cmp::min;
use vstd::std_specs::cmp::OrdSpec;
verus! {

pub enum CompressionError { InvalidInput(String) }
type Result<T> = std::result::Result<T, CompressionError>;

pub assume_specification<T: Ord>[ core::cmp::min::<T> ](a: T, b: T) -> (r: T)
    ensures a.cmp_spec(&b) == core::cmp::Ordering::Greater ==> r == b, a.cmp_spec(&b) != core::cmp::Ordering::Greater ==> r == a;

pub open spec fn cpl(s: Seq<u8>, a: int, b: int, cap: int) -> int
    decreases cap
{
    if cap <= 0 { 0 }
    else if 0 <= a < s.len() && 0 <= b < s.len() && s[a] == s[b] { 1 + cpl(s, a + 1, b + 1, cap - 1) }
    else { 0 }
}

#[verifier::external_body]
pub(crate) fn get_occurrence_length(
    bytes: &[u8],
    new_ptr: usize,
    new_length: usize,
    old_ptr: usize,
    old_length: usize,
) -> (r: (i32, usize))
    requires
        old_ptr + old_length == new_ptr,
        new_ptr + new_length <= bytes@.len(),
        new_length <= 0x7fff_ffff,
        bytes@.len() <= usize::MAX,
    ensures
        0 <= r.0 <= new_length,
        r.0 > 0 ==> 2 <= r.1 <= old_length,
        r.0 > 0 ==> forall|j: int| 0 <= j < r.0 ==> #[trigger] bytes@[new_ptr - r.1 + j] == bytes@[new_ptr + j],
        forall|src: int| old_ptr <= src <= new_ptr - 2 ==> #[trigger] cpl(bytes@, src, new_ptr as int, new_length as int) <= r.0,
{ unimplemented!() }

pub enum Tok { Lit(u8), Ref { len: int, disp: int } }

pub open spec fn copy(out: Seq<u8>, disp: int, len: int) -> Seq<u8>
    decreases len
{
    if len <= 0 || disp < 1 || disp > out.len() { out } else { copy(out.push(out[out.len() - disp]), disp, len - 1) }
}

pub open spec fn step(p: Seq<u8>, t: Tok) -> Seq<u8> {
    match t { Tok::Lit(b) => p.push(b), Tok::Ref { len, disp } => copy(p, disp, len) }
}

pub open spec fn expand(toks: Seq<Tok>) -> Seq<u8>
    decreases toks.len()
{
    if toks.len() == 0 { Seq::<u8>::empty() } else { step(expand(toks.drop_last()), toks.last()) }
}

pub open spec fn tok_ok10(p: Seq<u8>, t: Tok) -> bool {
    match t { Tok::Lit(b) => true, Tok::Ref { len, disp } => 3 <= len <= 18 && 1 <= disp <= 4096 && disp <= p.len() }
}

pub open spec fn valid10(toks: Seq<Tok>) -> bool
    decreases toks.len()
{
    toks.len() == 0 || (valid10(toks.drop_last()) && tok_ok10(expand(toks.drop_last()), toks.last()))
}

pub proof fn lemma_copy(s: Seq<u8>, n: int, d: int, len: int)
    requires 0 <= len, 1 <= d <= n, n + len <= s.len(),
             forall|j: int| 0 <= j < len ==> #[trigger] s[n - d + j] == s[n + j],
    ensures copy(s.take(n), d, len) == s.take(n + len),
    decreases len
{
    if len > 0 {
        let o = s.take(n);
        assert(s[n - d + 0] == s[n + 0]);
        assert(o.push(o[o.len() - d]) =~= s.take(n + 1));
        assert forall|j: int| 0 <= j < len - 1 implies #[trigger] s[(n + 1) - d + j] == s[(n + 1) + j] by {
            assert(s[n - d + (j + 1)] == s[n + (j + 1)]);
        }
        lemma_copy(s, n + 1, d, len - 1);
    }
}


// ---------- byte-level grammar of an LZ10 stream ----------
pub open spec fn bit_val(idx: int) -> int {
    if idx == 0 { 128 } else if idx == 1 { 64 } else if idx == 2 { 32 } else if idx == 3 { 16 }
    else if idx == 4 { 8 } else if idx == 5 { 4 } else if idx == 6 { 2 } else if idx == 7 { 1 } else { 0 }
}
pub open spec fn flags(g: Seq<Tok>) -> int
    decreases g.len()
{
    if g.len() == 0 { 0 } else { flags(g.drop_last()) + (if g.last() is Ref { bit_val(g.len() - 1) } else { 0 }) }
}
pub open spec fn tok_bytes10(t: Tok) -> Seq<u8> {
    match t {
        Tok::Lit(b) => seq![b],
        Tok::Ref { len, disp } => seq![(((len - 3) * 16) + ((disp - 1) / 256)) as u8, ((disp - 1) % 256) as u8],
    }
}
pub open spec fn body(g: Seq<Tok>) -> Seq<u8>
    decreases g.len()
{
    if g.len() == 0 { Seq::<u8>::empty() } else { body(g.drop_last()) + tok_bytes10(g.last()) }
}
pub open spec fn group(g: Seq<Tok>) -> Seq<u8> { seq![flags(g) as u8] + body(g) }
pub open spec fn last_k(n: int) -> int { if n % 8 == 0 { 8 } else { n % 8 } }
pub open spec fn enc10(toks: Seq<Tok>) -> Seq<u8>
    decreases toks.len()
{
    if toks.len() == 0 { Seq::<u8>::empty() }
    else { let k = last_k(toks.len() as int); enc10(toks.take(toks.len() - k)) + group(toks.skip(toks.len() - k)) }
}
pub open spec fn header10(n: int) -> Seq<u8> { seq![0x10u8, (n % 256) as u8, ((n / 256) % 256) as u8, ((n / 65536) % 256) as u8] }

pub open spec fn low(n: int) -> int { if n == 0 { 256 } else { bit_val(n - 1) } }

pub proof fn lemma_flags_low_clear(g: Seq<Tok>)
    requires g.len() <= 8,
    ensures 0 <= flags(g) <= 256 - low(g.len() as int), flags(g) % low(g.len() as int) == 0,
    decreases g.len()
{
    let n = g.len() as int;
    if n > 0 {
        lemma_flags_low_clear(g.drop_last());
        let f = flags(g.drop_last());
        if n == 1 { } else if n == 2 { } else if n == 3 { } else if n == 4 { }
        else if n == 5 { } else if n == 6 { } else if n == 7 { } else { }
    }
}

pub struct LZ10CompressionFormat;

impl LZ10CompressionFormat {
    pub fn compress(&self, bytes: &[u8]) -> (r: Result<Vec<u8>>)
        requires bytes@.len() < 0x100_0000,
        ensures r is Ok,
                exists|toks: Seq<Tok>| valid10(toks) && expand(toks) == bytes@,
    {
        let mut buf: Vec<u8> = Vec::new();
        buf.push(0x10);
        buf.push((bytes.len() & 0xFF) as u8);
        buf.push(((bytes.len() >> 8) & 0xFF) as u8);
        buf.push(((bytes.len() >> 16) & 0xFF) as u8);

        let mut out_buffer = [0; 8 * 2 + 1];
        let mut buffer_length = 1;
        let mut buffered_blocks = 0;
        let mut read_bytes = 0;
        let ghost mut toks: Seq<Tok> = Seq::empty();
        while read_bytes < bytes.len()
            invariant
                bytes@.len() < 0x100_0000,
                0 <= read_bytes <= bytes@.len(),
                0 <= buffered_blocks <= 8,
                1 <= buffer_length <= 1 + 2 * buffered_blocks,
                valid10(toks),
                expand(toks) == bytes@.take(read_bytes as int),
            decreases bytes@.len() - read_bytes,
        {
            if buffered_blocks == 8 {
                buf.extend_from_slice(&out_buffer[0..buffer_length]);
                out_buffer[0] = 0;
                buffer_length = 1;
                buffered_blocks = 0;
            }

            let old_length = min(read_bytes, 0x1000);
            let (length, disp) = get_occurrence_length(
                bytes, 
                read_bytes, 
                min(bytes.len() - read_bytes, 0x12), 
                read_bytes - old_length, 
                old_length
            );

            if length < 3 {
                proof {
                    let t = Tok::Lit(bytes@[read_bytes as int]);
                    assert(toks.push(t).drop_last() =~= toks);
                    assert(bytes@.take(read_bytes as int).push(bytes@[read_bytes as int]) =~= bytes@.take(read_bytes + 1));
                    toks = toks.push(t);
                }
                out_buffer[buffer_length] = bytes[read_bytes];
                buffer_length += 1;
                read_bytes += 1;
            } else {
                proof {
                    let t = Tok::Ref { len: length as int, disp: disp as int };
                    assert(toks.push(t).drop_last() =~= toks);
                    lemma_copy(bytes@, read_bytes as int, disp as int, length as int);
                    toks = toks.push(t);
                }
                read_bytes += length as usize;
                out_buffer[0] |= (1 << (7 - buffered_blocks)) as u8;
                out_buffer[buffer_length] = (((length - 3) << 4) & 0xF0) as u8;
                out_buffer[buffer_length] |= (((disp - 1) >> 8) & 0x0F) as u8;
                buffer_length += 1;
                out_buffer[buffer_length] = ((disp - 1) & 0xFF) as u8;
                buffer_length += 1;
            }
            buffered_blocks += 1;
        }
        if buffered_blocks > 0 {
            buf.extend_from_slice(&out_buffer[0..buffer_length]);
        }
        proof { assert(bytes@.take(read_bytes as int) =~= bytes@); }
        Ok(buf)
    }
}
}
fn main() {}
