use vstd::prelude::*;
use std::collections::HashMap;
verus! {
pub struct B { pub labels: HashMap<usize, Vec<String>>, pub sets: Vec<Vec<Option<String>>> }
impl B {
    pub fn find_label_address(&self, target: &str) -> Option<usize> {
        for (address, bucket) in &self.labels {
            for label in bucket {
                if label == target {
                    return Some(*address);
                }
            }
        }
        None
    }
    pub fn count(&self) -> usize {
        let mut n: usize = 0;
        for set in &self.sets {
            if let Some(label) = &set[0] {
                if n < 100 { n += 1; }
            }
        }
        n
    }
}
}
fn main() {}
