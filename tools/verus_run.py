"""verus_run -- run one assembled unit through Verus and turn its diagnostics into
named obligations.

exit discipline (DESIGN 3.2): anything that is not a refuted / unproved obligation on a
well-formed query (lost anchor, compile error, unsupported construct, rlimit, a canary that
verifies) is UNDECIDED, never a violation.
"""
import tempfile, shutil
import os, re, json, subprocess, time, hashlib
import assemble, rsx
from rsx import ExtractError

VERIF = assemble.VERIF
# generated unit files go next to the evidence of THIS run: checks redirected with MILA_OUT (trypatch, mutant audit) must not
# share /verif/gen with a concurrent run (seen: a canary failure attributed to the wrong function -> false alarm; a canary
# reported as verified -> VACUITY, exit 2)
GEN = os.environ.get("MILA_GEN") or os.path.join(os.environ.get("MILA_OUT", VERIF), "gen")

VERIF_FAIL = [
    (r"postcondition not satisfied", "postcondition"),
    (r"unable to prove post-?condition of closure", "closure_postcondition"),
    (r"unable to prove pre-?condition of closure|closure.*precondition", "precondition"),
    (r"precondition not satisfied", "precondition"),
    (r"precondition not met", "precondition"),
    (r"requires not satisfied", "assert_requires"),      # premise of an `assert(..) by(..) requires ..` step
    (r"index in bounds|index out of bounds", "index"),
    (r"assertion failed", "assertion"),
    (r"possible arithmetic underflow/overflow", "overflow"),
    (r"possible division by zero", "div_by_zero"),
    (r"possible bit shift underflow/overflow", "shift_overflow"),
    (r"invariant not satisfied before loop", "invariant_init"),
    (r"invariant not satisfied at end of loop body", "invariant_preserved"),
    (r"invariant not satisfied", "invariant"),
    (r"decreases not satisfied", "termination"),
    (r"could not prove termination", "termination"),
    (r"bit.?vector.*(fail|not)", "bit_vector"),
    (r"assert_by|assertion by", "assertion"),
    (r"unreachable|panic", "panic"),
]
# a loop/recursion the overlay gives no measure for (e.g. a `for` rewritten as `while`) is a missing
# annotation, not a refuted obligation
UNDECIDED_MSG = [r"[Rr]esource limit", r"rlimit", r"timed? ?out", r"must have a decreases clause"]
IGNORE_MSG = [r"^aborting due to", r"^For more information"]


class Failure:
    def __init__(self):
        self.kind = self.unit = self.function = self.clause = self.expr = None
        self.props = []
        self.site = None          # repo file:line or specfile:line
        self.message = ""
        self.rendered = ""
        self.is_canary = False

    @property
    def name(self):
        tag = self.clause or self.expr or "?"
        return "%s::%s::%s[%s]" % (self.unit, self.function, self.kind, tag)

    def to_json(self):
        return {"obligation": self.name, "kind": self.kind, "unit": self.unit, "function": self.function,
                "clause": self.clause, "expr": self.expr, "site": self.site, "charged_to": self.props,
                "verifier_message": self.message, "verifier_output": self.rendered}


class UnitResult:
    def __init__(self, name):
        self.name = name
        self.status = "ok"            # ok | failed | undecided
        self.reason = ""
        self.failures = []
        self.functions = []           # per verified fn: name, key, mode, success, smt_ms, rlimit, obligations
        self.trusted = []
        self.rewrites = {}
        self.items = []
        self.canaries_expected = 0
        self.canaries_failed = 0
        self.wall_s = 0.0
        self.smt_ms = 0
        self.cmd = ""
        self.verified = 0
        self.errors = 0
        self.strip_compare = 0
        self.gen_path = ""
        self.gen_sha = ""
        self.skipped_anchors = {}


TAG_RE = re.compile(r"//\s*#(\w+)((?:\s+C\d+)*)\s*$")


def _clause_tag(lm, l0, l1):
    for ln in range(l1, l0 - 1, -1):
        m = TAG_RE.search(lm.gen_line_text(ln))
        if m:
            return m.group(1), m.group(2).split()
    # tag may sit on the line that closes a multi-line clause -- only if the clause continues
    if re.sub(r"//.*$", "", lm.gen_line_text(l1)).rstrip().endswith((",", ";", "{", "}")):
        return None, []
    for ln in range(l1 + 1, min(l1 + 4, len(lm.line_offsets))):
        t = lm.gen_line_text(ln)
        m = TAG_RE.search(t)
        if m and not re.match(r"\s*(ensures|requires|invariant)", t):
            return m.group(1), m.group(2).split()
        if t.strip().endswith(","):
            break
    return None, []


def _enclosing_fn(text, offset):
    best = None
    for m in re.finditer(r"\bfn\s+(\w+)", text[:offset]):
        best = m.group(1)
    return best or "?"


def _fn_label(key):
    # "src/x.rs :: impl BinArchive :: fn read_u32" -> "BinArchive::read_u32"
    parts = key.split(" :: ")
    out = []
    for p in parts[1:]:
        m = re.match(r"impl(?:<[^>]*>)?\s+(.*)$", p)
        if m:
            out.append(re.sub(r"<[^>]*>", "", m.group(1)).replace(" for ", "@"))
        else:
            out.append(p.split()[-1])
    return os.path.basename(parts[0]).replace(".rs", "") + "::" + "::".join(out)


def count_clauses(text):
    """syntactic count of specification clauses in overlay text (rule printed in the evidence)"""
    text = re.sub(r"//[^\n]*", "", text)
    n = 0
    for kw, body in re.findall(r"\b(requires|ensures|invariant|decreases)\b(.*?)(?=\b(?:requires|ensures|invariant|decreases)\b|\Z)", text, re.S):
        depth, bars, cnt, seen = 0, False, 0, False
        i = 0
        while i < len(body):
            c = body[i]
            if c in "([{":
                depth += 1
            elif c in ")]}":
                depth -= 1
            elif c == "|" and re.search(r"(forall|exists|choose)\s*$", body[:i]):
                j = body.find("|", i + 1)
                i = j
            elif c == "," and depth == 0:
                if seen:
                    cnt += 1
                seen = False
            elif not c.isspace():
                seen = True
            i += 1
        if seen:
            cnt += 1
        n += cnt * (2 if kw == "invariant" else 1)
    n += len(re.findall(r"\bassert\s*\(", text))
    return n


def count_implicit(body):
    """implicit safety obligations of an exec body: arithmetic (overflow), casts, indexing
    (bounds), calls (callee precondition), `?`-free.  Purely syntactic."""
    toks = rsx.tokenize(body)
    n = 0
    for i, t in enumerate(toks):
        if t[0] == "p" and t[1] in "+-*/%" and i > 0:
            prev = toks[i - 1]
            if prev[0] in ("id", "num") or prev[1] in (")", "]"):
                if not (t[1] == "-" and toks[i + 1][1] == ">"):
                    n += 1
        elif t[0] == "id" and t[1] == "as":
            n += 1
        elif t[0] == "p" and t[1] == "[" and i > 0 and (toks[i - 1][0] == "id" or toks[i - 1][1] in (")", "]")):
            n += 1
        elif t[0] == "p" and t[1] == "(" and i > 0 and toks[i - 1][0] == "id" and toks[i - 1][1] not in ("if", "while", "match", "for", "return", "in"):
            n += 1
    return n


def scan_trusted(unit, text, body_index):
    """mechanical scan of the generated file for every assumption"""
    out = []
    lines = text.split("\n")
    cur_item = None
    for i, line in enumerate(lines):
        m = re.match(r"//@@begin-item (.*) \[(\w+)\]", line)
        if m:
            cur_item = (m.group(1), m.group(2))
        if line.startswith("//@@end-item"):
            cur_item = None
        s = line.strip()
        if "#[verifier::external_body]" in s:
            if cur_item and cur_item[1] == "contract":
                where = body_index.get(cur_item[0])
                if where:
                    out.append("contract-by-reference: %s (assumed in this unit; proved from its body in unit %s)" % (cur_item[0], ",".join(where)))
                else:
                    out.append("ASSUMED contract (no unit proves it): %s" % cur_item[0])
            else:
                nxt = " ".join(x.strip() for x in lines[i + 1:i + 4])
                mm = re.search(r"\b(?:fn|struct)\s+(\w+)", nxt)
                out.append("external_body: %s" % (mm.group(1) if mm else nxt[:60]))
        elif s.startswith("pub assume_specification") or s.startswith("assume_specification"):
            mm = re.search(r"\[\s*(.*?)\s*\]", " ".join(lines[i:i + 4]))
            out.append("assume_specification: %s" % (mm.group(1) if mm else s[:80]))
        elif "external_type_specification" in s:
            nxt = " ".join(x.strip() for x in lines[i + 1:i + 5])
            mm = re.search(r"struct\s+\w+\s*(?:<[^>]*>)?\s*\((.*?)\)", nxt)
            out.append("external_type_specification: %s" % (mm.group(1) if mm else nxt[:60]))
        elif re.search(r"\b(assume|admit)\s*\(", s) and not s.startswith("//"):
            out.append("assume/admit at gen line %d: %s" % (i + 1, s[:80]))
        elif re.search(r"\buninterp\s+spec\s+fn\s+(\w+)", s):
            out.append("uninterpreted spec fn: %s" % re.search(r"\buninterp\s+spec\s+fn\s+(\w+)", s).group(1))
        elif "global size_of usize" in s:
            out.append("A-64bit: usize is 64 bits wide (global size_of usize == 8)")
    seen, res = set(), []
    for x in out:
        if x not in seen:
            seen.add(x); res.append(x)
    return res


_body_index = None


def body_index():
    """item key -> units that verify its body (textual scan of the unit templates)"""
    global _body_index
    if _body_index is None:
        idx = {}
        udir = os.path.join(VERIF, "contracts", "units")

        def scan(path, unit):
            for line in open(path):
                s = line.strip()
                if s.startswith("//@body "):
                    idx.setdefault(assemble.norm_key(s[8:]), []).append(unit)
                elif s.startswith("//@include "):
                    scan(os.path.join(VERIF, "contracts", s[11:].strip()), unit)
        reg = json.load(open(os.path.join(VERIF, "contracts", "units.json")))
        for fn in sorted(os.listdir(udir)):
            if fn.endswith(".vrs") and fn[:-4] in reg:      # only units that are actually run
                scan(os.path.join(udir, fn), fn[:-4])
        # functions whose contract is proved on the real code by a complete (loop-free, full-domain) Kani unit
        kdir = os.path.join(VERIF, "contracts", "kani")
        for fn in sorted(os.listdir(kdir)):
            if fn.endswith(".json") and fn[:-5] in reg:
                for h in json.load(open(os.path.join(kdir, fn))).get("harnesses", []):
                    if h.get("item") and h.get("label", "").startswith("proved-complete"):
                        idx.setdefault(assemble.norm_key(h["item"]), [])
                        tag = fn[:-5] + " (Kani, complete)"
                        if tag not in idx[assemble.norm_key(h["item"])]:
                            idx[assemble.norm_key(h["item"])].append(tag)
        _body_index = idx
    return _body_index


def run_unit(name, unit_props, rlimit=None, extra_args=(), gen_dir=None, timeout=900):
    res = UnitResult(name)
    t0 = time.time()
    gen_dir = gen_dir or GEN
    os.makedirs(gen_dir, exist_ok=True)
    try:
        store = assemble.load_store()
        unit = assemble.assemble(name, store)
        res.strip_compare = assemble.strip_and_compare(unit)
    except ExtractError as e:
        res.status, res.reason = "undecided", "extraction: %s" % e
        res.wall_s = time.time() - t0
        return res
    except FileNotFoundError as e:
        res.status, res.reason = "undecided", "extraction: %s" % e
        res.wall_s = time.time() - t0
        return res
    text = unit.text()
    # Verus reads the file from a directory private to this run (two concurrent checks that both run this unit would
    # otherwise overwrite each other's file between the write and Verus' read: spans then belong to another text);
    # the file is moved to gen_dir/<unit>.rs afterwards, for inspection only
    final_path = os.path.join(gen_dir, name + ".rs")
    priv = tempfile.mkdtemp(prefix=".run-%s-" % name, dir=gen_dir)
    path = os.path.join(priv, name + ".rs")
    open(path, "w").write(text)
    res.gen_path, res.gen_sha = final_path, hashlib.sha256(text.encode()).hexdigest()[:16]
    res.rewrites, res.items = unit.rewrites, unit.items
    lm = assemble.LineMap(unit)
    res.trusted = scan_trusted(unit, text, body_index())

    cmd = ["verus", path, "--output-json", "--time-expanded", "--multiple-errors", "50", "--triggers-mode", "silent"]
    if rlimit:
        cmd += ["--rlimit", str(rlimit)]
    cmd += list(extra_args) + ["--", "--error-format=json"]
    res.cmd = " ".join(cmd).replace(path, final_path)
    try:
        p = subprocess.run(cmd, capture_output=True, text=True, timeout=timeout, cwd=priv)
    except subprocess.TimeoutExpired:
        res.status, res.reason = "undecided", "verus timeout after %ds" % timeout
        res.wall_s = time.time() - t0
        return res
    finally:
        try:
            os.replace(path, final_path)
        except OSError:
            pass
        shutil.rmtree(priv, ignore_errors=True)
    res.wall_s = time.time() - t0
    try:
        out = json.loads(p.stdout)
    except Exception:
        out = None

    diags = []
    for line in p.stderr.split("\n"):
        line = line.strip()
        if line.startswith("{") and '"$message_type"' in line:
            try:
                diags.append(json.loads(line))
            except Exception:
                pass
    store_props = {k: v.props for k, v in store.items()}
    compile_errors = []
    untrusted = []
    res.skipped_anchors = {k: list(v) for k, v in unit.skipped.items()}
    for k, v in unit.skipped_harmless.items():
        res.skipped_anchors.setdefault(k, []).extend("%s (loop no longer exists)" % a for a in v)
    for d in diags:
        if d.get("level") != "error":
            continue
        msg = d.get("message", "")
        if any(re.search(r, msg) for r in IGNORE_MSG):
            continue
        if any(re.search(r, msg) for r in UNDECIDED_MSG):
            res.status, res.reason = "undecided", "verus: " + msg
            continue
        kind = None
        for rx, k in VERIF_FAIL:
            if re.search(rx, msg):
                kind = k; break
        if kind is None:
            compile_errors.append(msg + " :: " + (d.get("rendered") or "")[:400])
            continue
        f = Failure()
        f.kind, f.unit, f.message, f.rendered = kind, name, msg, d.get("rendered", "")
        def local(sp, depth=0):
            # a span inside a std macro (todo!(), panic!(), vec![]) carries the call site in `expansion`
            if sp.get("file_name", "").endswith(name + ".rs"):
                return sp
            ex = sp.get("expansion")
            if ex and ex.get("span") and depth < 8:
                got = local(ex["span"], depth + 1)
                if got:
                    got = dict(got); got["is_primary"] = sp.get("is_primary", False)
                    return got
            return None
        spans = [x for x in (local(s) for s in d.get("spans", [])) if x]
        prim = [s for s in spans if s.get("is_primary")] or spans
        if not prim:
            compile_errors.append("diagnostic without local span: " + msg)
            continue
        sp = prim[0]
        loc = lm.lookup(sp["line_start"], sp["column_start"])
        # the function the obligation belongs to: the item containing the *body* span if any
        item_key = loc["item"]
        for s in spans:
            l2 = lm.lookup(s["line_start"], s["column_start"])
            if l2["item"] and l2["origin"] == "repo":
                item_key = l2["item"]
        if item_key:
            f.function = _fn_label(item_key)
            f.props = list(store_props.get(item_key, [])) or list(unit_props)
        else:
            f.function = "spec::" + _enclosing_fn(text, lm.offset(sp["line_start"], sp["column_start"]))
            f.props = list(unit_props)
        if f.function.split("::")[-1].startswith("canary_"):
            f.is_canary = True
        if item_key and item_key in unit.skipped:
            # proof annotations of this function could not be placed (anchors lost): its failures are
            # a missing proof, not a refuted obligation
            untrusted.append((f, item_key))
            continue
        src_txt = " ".join(t["text"][t["highlight_start"] - 1:t["highlight_end"] - 1] for t in sp.get("text", []))
        src_txt = re.sub(r"\s+", " ", src_txt).strip()
        if loc["origin"] == "repo":
            f.expr = src_txt[:100]
            f.site = "%s:%d" % (loc["file"], loc["line"])
        else:
            cid, cprops = _clause_tag(lm, sp["line_start"], sp["line_end"])
            f.clause = cid
            if cprops:
                f.props = cprops
            if not cid:
                f.expr = src_txt[:100]
            f.site = "%s:%d" % (loc["file"], loc["line"]) if loc["file"] else "gen:%d" % sp["line_start"]
        # precondition failures: name the callee clause too
        if kind == "precondition":
            for s in d.get("spans", []):
                if not s.get("is_primary") and s.get("file_name", "").endswith(name + ".rs"):
                    cid, cprops = _clause_tag(lm, s["line_start"], s["line_end"])
                    if cid:
                        f.clause = "%s@%s" % (cid, f.expr or "")
        res.failures.append(f)

    if untrusted:
        res.status = "undecided"
        res.reason = "anchors lost in %s (%s): the function changed shape, its proof annotations could not be placed and it no longer verifies" % (
            untrusted[0][1], "; ".join(unit.skipped[untrusted[0][1]])[:200])
    if compile_errors and unit.skipped:
        res.status, res.reason = "undecided", "anchors lost (%s) and verus rejected the generated file: %s" % (
            "; ".join("%s: %s" % (k, ", ".join(v)) for k, v in unit.skipped.items())[:300], compile_errors[0][:300])
    elif compile_errors and not res.failures:
        res.status, res.reason = "undecided", "verus rejected the generated file: " + compile_errors[0][:600]
    elif compile_errors:
        res.status, res.reason = "undecided", "verus rejected the generated file: " + compile_errors[0][:600]
    if out is None and res.status == "ok":
        res.status, res.reason = "undecided", "no JSON result from verus (exit %s): %s" % (p.returncode, p.stderr[-400:])

    # per-function table
    crate = name
    body_items = {i["key"]: i for i in unit.items if i["mode"] == "body" and i["kind"] == "fn"}
    if out:
        vr = out.get("verification-results", {})
        res.verified, res.errors = vr.get("verified", 0), vr.get("errors", 0)
        tm = out.get("times-ms", {})
        res.smt_ms = tm.get("smt", {}).get("total", 0)
        by_label = {}
        for mod in tm.get("smt", {}).get("smt-run-module-times", []):
            for fb in mod.get("function-breakdown", []):
                by_label[fb["function"]] = fb
        ov_text = {}
        for k, ov in store.items():
            ov_text[k] = "\n".join(t for _, t, _ in ov.inserts)
        for key, it in body_items.items():
            label = _fn_label(key)               # bin_archive::BinArchive::read_u32
            short = label.split("::", 1)[1] if "::" in label else label
            fb = None
            for fn, v in by_label.items():
                if fn.endswith("::" + short) or fn.endswith("::" + short.replace("::", "::impl&%0::")):
                    fb = v
                # trait impls / generic impls are reported as  mod::impl&%N::name
                elif fn.split("::")[-1] == it["name"] and fn.split("::")[1:2] == [label.split("::")[0]]:
                    fb = fb or v
                elif "@" in short:
                    # trait impl `Trait@Type::name`: Verus reports it under the implementing type
                    ty = short.split("@", 1)[1].split("::")[-2].split("<")[0]
                    if fn.endswith("::%s::%s" % (ty, it["name"])):
                        fb = fb or v
            src, toks = assemble._load(it["file"])
            item = rsx.find_item(src, key.split(" :: ", 1)[1], toks)
            nclauses = count_clauses(ov_text.get(key, ""))
            nimpl = count_implicit(src[item.body_open:item.end])
            extra = {}
            if it["file"].startswith("dep:"):
                # pinned dependency source: where it was read from and the checksum Cargo.lock pins
                name = it["file"][4:].split("/", 1)[0]
                lock = open(os.path.join(assemble.REPO, "Cargo.lock")).read()
                mm = re.search(r'name = "%s"\nversion = "([^"]+)"\nsource = "[^"]*"\nchecksum = "([0-9a-f]+)"' % re.escape(name), lock)
                extra = {"dependency_source": assemble.resolve_file(it["file"]),
                         "cargo_lock_pin": ("%s %s checksum %s" % (name, mm.group(1), mm.group(2))) if mm else "not found in Cargo.lock"}
            res.functions.append({
                **extra,
                "function": label, "item": key, "lines": "%s:%d-%d" % (it["file"], it["lines"][0], it["lines"][1]),
                "sha256": it["sha256"], "backend": "verus/z3", "label": "proved-unbounded",
                "success": bool(fb["success"]) if fb else None,
                "smt_ms": fb["time"] if fb else None, "rlimit": fb["rlimit"] if fb else None,
                "named_clauses": nclauses, "implicit_obligations": nimpl,
                "props": store_props.get(key, []),
            })
    # canaries
    res.canaries_expected = len(set(re.findall(r"\bfn\s+(canary_\w+)", text)))
    failed_canaries = set(f.function.split("::")[-1] for f in res.failures if f.is_canary)
    res.canaries_failed = len(failed_canaries)
    if res.status == "ok" and res.canaries_failed != res.canaries_expected:
        missing = set(re.findall(r"\bfn\s+(canary_\w+)", text)) - failed_canaries
        res.status, res.reason = "undecided", "VACUITY: canary verified although it must fail: %s" % sorted(missing)
    real = [f for f in res.failures if not f.is_canary]
    if res.status == "ok" and real:
        res.status = "failed"
    # a function that did not succeed but produced no diagnostic we understood
    if res.status == "ok":
        for fn in res.functions:
            if fn["success"] is False:
                res.status, res.reason = "undecided", "function %s not verified but no failed obligation reported" % fn["function"]
            elif fn["success"] is None:
                # Verus printed its result object but has no entry for this function: its solver process died or was
                # killed before a verdict (seen: `expected rlimit-count in smt statistics` in a worker thread)
                res.status, res.reason = "undecided", "function %s not verified but no failed obligation reported: no verdict for it in Verus' result (solver died?) %s" % (
                    fn["function"], (p.stderr or "")[-300:].replace("\n", " "))
    return res
