#!/usr/bin/env python3
"""reseed -- re-run the property's check against every recorded seeded change (seeded/<name>/patch.diff applied to
a scratch copy of the CURRENT /repo via tools/trypatch.py) and refresh `checks` / `caught` / `rechecked_at_head`
in seeded/<name>/meta.json.   tools/reseed.py [name ...]"""
import sys, os, json, subprocess, glob
VERIF = os.path.dirname(os.path.dirname(os.path.abspath(__file__)))
names = sys.argv[1:] or sorted(os.path.basename(d) for d in glob.glob(os.path.join(VERIF, "seeded", "*")))
head = subprocess.run(["git", "-C", "/repo", "rev-parse", "--short", "HEAD"], capture_output=True, text=True).stdout.strip()
vhead = subprocess.run(["git", "-C", VERIF, "rev-parse", "--short", "HEAD"], capture_output=True, text=True).stdout.strip()
for n in names:
    d = os.path.join(VERIF, "seeded", n)
    mp = os.path.join(d, "meta.json")
    if not os.path.exists(mp):
        continue
    meta = json.load(open(mp))
    pid = meta.get("property") or n.split("-")[0]
    p = subprocess.run([sys.executable, os.path.join(VERIF, "tools", "trypatch.py"), os.path.join(d, "patch.diff"), pid],
                       capture_output=True, text=True)
    out = [l for l in p.stdout.split("\n") if l.strip()]
    ex = None
    for l in out:
        if l.startswith("== %s exit" % pid):
            ex = int(l.split()[-1])
    lines = [l[:400] for l in out if l.startswith(("VIOLATION", "  obligation", "UNDECIDED", "OK ", "DEGRADED", "KNOWN", "patch does not apply", "(applied"))]
    if ex is None:
        # the patch was written against an earlier head (before a `fix:` commit moved the code) and does not
        # apply any more: keep what was recorded when it did
        meta["applies_at_head"] = False
        meta["rechecked_at_head"] = {"repo": head, "verif": vhead}
        json.dump(meta, open(mp, "w"), indent=1)
        print(n, "patch does not apply at", head, "(kept the recorded result)", flush=True)
        continue
    meta["applies_at_head"] = True
    meta["checks"] = {pid: {"exit": ex, "output": lines[:8]}}
    meta["caught"] = (ex == 1)
    meta["rechecked_at_head"] = {"repo": head, "verif": vhead}
    json.dump(meta, open(mp, "w"), indent=1)
    print(n, "exit", ex, "caught" if ex == 1 else "NOT CAUGHT", (lines[1][:150] if len(lines) > 1 else ""), flush=True)
