"""rsx -- mechanical extraction of Rust items and structural anchors.

Nothing in here understands Rust semantics.  It tokenises a source file
(skipping comments, string / char literals), finds an item by path and
returns the *verbatim* text span, plus positions ("anchors") inside a function
body at which overlay text may be inserted.  Insertion is the only edit the
assembler ever performs on extracted text, apart from the closed list of
rewrites R1..R6 implemented (one function each) at the bottom of this file.
"""
import re

class ExtractError(Exception):
    """item not found / anchor lost / rewrite not applicable  -> UNDECIDED (exit 2)"""


# ----------------------------------------------------------------- tokenizer

IDENT_RE = re.compile(r"[A-Za-z_][A-Za-z0-9_]*")
NUM_RE = re.compile(r"[0-9][A-Za-z0-9_]*(\.[0-9][A-Za-z0-9_]*)?")


def tokenize(src):
    """-> list of (kind, text, start, end); kind in id, num, str, chr, life, p (punct)"""
    toks = []
    i, n = 0, len(src)
    while i < n:
        c = src[i]
        if c.isspace():
            i += 1
            continue
        if src.startswith("//", i):
            j = src.find("\n", i)
            i = n if j < 0 else j
            continue
        if src.startswith("/*", i):
            depth, j = 1, i + 2
            while j < n and depth:
                if src.startswith("/*", j):
                    depth += 1; j += 2
                elif src.startswith("*/", j):
                    depth -= 1; j += 2
                else:
                    j += 1
            i = j
            continue
        # raw strings  r"..."  r#"..."#  br"..."
        m = re.match(r"b?r(#*)\"", src[i:i + 40])
        if m:
            hashes = m.group(1)
            close = '"' + hashes
            j = src.find(close, i + m.end())
            if j < 0:
                raise ExtractError("unterminated raw string")
            j += len(close)
            toks.append(("str", src[i:j], i, j)); i = j
            continue
        if c == '"' or (c == 'b' and src.startswith('b"', i)):
            j = i + (2 if c == 'b' else 1)
            while j < n and src[j] != '"':
                j += 2 if src[j] == "\\" else 1
            j += 1
            toks.append(("str", src[i:j], i, j)); i = j
            continue
        if c == "'" or (c == 'b' and src.startswith("b'", i)):
            k = i + (1 if c == 'b' else 0)
            # char literal or lifetime
            m = re.match(r"'(\\.[^']*|[^\\'])'", src[k:k + 16])
            if m:
                j = k + m.end()
                toks.append(("chr", src[i:j], i, j)); i = j
                continue
            m = IDENT_RE.match(src, k + 1)
            if m:
                j = m.end()
                toks.append(("life", src[i:j], i, j)); i = j
                continue
            raise ExtractError("bad quote at %d" % i)
        m = IDENT_RE.match(src, i)
        if m:
            toks.append(("id", m.group(0), i, m.end())); i = m.end()
            continue
        m = NUM_RE.match(src, i)
        if m:
            # do not swallow `0..n` as a float
            t = m.group(0)
            if ".." in src[i:i + len(t) + 1] and "." in t:
                t = t.split(".")[0]
            toks.append(("num", t, i, i + len(t))); i += len(t)
            continue
        toks.append(("p", c, i, i + 1)); i += 1
    return toks


OPEN = {"{": "}", "(": ")", "[": "]"}
CLOSE = {"}", ")", "]"}


def match_close(toks, k):
    """toks[k] is an opening bracket; -> index of its matching closer"""
    depth = 0
    for j in range(k, len(toks)):
        t = toks[j][1] if toks[j][0] == "p" else None
        if t in OPEN:
            depth += 1
        elif t in CLOSE:
            depth -= 1
            if depth == 0:
                return j
    raise ExtractError("unbalanced bracket")


# ------------------------------------------------------------- item location

ITEM_KW = {"fn", "struct", "enum", "static", "const", "trait", "type", "impl", "mod"}


def _norm(s):
    return re.sub(r"\s+", "", s)


class Item:
    def __init__(self, src, kind, name, start, end, sig_end=None, body_open=None, path=""):
        self.src, self.kind, self.name = src, kind, name
        self.start, self.end = start, end          # char offsets, end exclusive
        self.body_open = body_open                 # offset of the body '{' (fn) or None
        self.path = path

    @property
    def text(self):
        return self.src[self.start:self.end]

    def lines(self):
        a = self.src.count("\n", 0, self.start) + 1
        b = self.src.count("\n", 0, self.end) + 1
        return a, b


def _scan_items(src, toks, lo, hi):
    """yield (kind, name/header, first_tok, last_tok, body_open_tok) for the items
    lying directly in toks[lo:hi] (one nesting level)."""
    k = lo
    while k < hi:
        first = k
        # attributes
        while k < hi and toks[k][1] == "#" and toks[k][0] == "p":
            j = k + 1
            if j < hi and toks[j][1] == "!":
                j += 1
            if j < hi and toks[j][1] == "[":
                k = match_close(toks, j) + 1
            else:
                break
        # visibility and qualifiers
        while k < hi and toks[k][0] == "id" and toks[k][1] in ("pub", "unsafe", "async", "extern", "default"):
            k += 1
            if k < hi and toks[k][1] == "(" and toks[k - 1][1] == "pub":
                k = match_close(toks, k) + 1
            if k < hi and toks[k][0] == "str" and toks[k - 1][1] == "extern":
                k += 1
        if k >= hi:
            break
        kw = toks[k][1] if toks[k][0] == "id" else None
        if kw == "const" and k + 1 < hi and toks[k + 1][1] == "fn":
            k += 1; kw = "fn"
        if kw == "fn":
            name = toks[k + 1][1]
            j = k + 2
            depth = 0
            body = None
            while j < hi:
                t = toks[j]
                if t[0] == "p" and t[1] in "([":
                    j = match_close(toks, j)
                elif t[0] == "p" and t[1] == "{":
                    body = j; break
                elif t[0] == "p" and t[1] == ";":
                    break
                j += 1
            if body is not None:
                last = match_close(toks, body)
            else:
                last = j
            yield ("fn", name, first, last, body)
            k = last + 1
        elif kw in ("struct", "enum", "union", "trait", "mod"):
            name = toks[k + 1][1]
            j = k + 2
            body = None
            while j < hi:
                t = toks[j]
                if t[0] == "p" and t[1] == "(":
                    j = match_close(toks, j)
                elif t[0] == "p" and t[1] == "{":
                    body = j; break
                elif t[0] == "p" and t[1] == ";":
                    break
                j += 1
            last = match_close(toks, body) if body is not None else j
            yield (kw, name, first, last, body)
            k = last + 1
        elif kw == "impl":
            j = k + 1
            body = None
            while j < hi:
                t = toks[j]
                if t[0] == "p" and t[1] in "([":
                    j = match_close(toks, j)
                elif t[0] == "p" and t[1] == "{":
                    body = j; break
                j += 1
            if body is None:
                raise ExtractError("impl without body")
            last = match_close(toks, body)
            header = src[toks[k][2]:toks[body][2]].strip()
            yield ("impl", header, first, last, body)
            k = last + 1
        elif kw in ("static", "const", "type", "use"):
            j = k + 1
            if toks[j][1] == "mut":
                j += 1
            name = toks[j][1]
            while j < hi and not (toks[j][0] == "p" and toks[j][1] == ";"):
                if toks[j][0] == "p" and toks[j][1] in OPEN:
                    j = match_close(toks, j)
                j += 1
            yield (kw, name, first, j, None)
            k = j + 1
        elif kw is not None and k + 1 < hi and toks[k + 1][1] == "!":
            # macro invocation item
            j = k + 2
            while j < hi and not (toks[j][0] == "p" and toks[j][1] in OPEN):
                j += 1
            last = match_close(toks, j)
            if last + 1 < hi and toks[last + 1][1] == ";":
                last += 1
            yield ("macro", kw, first, last, None)
            k = last + 1
        else:
            k += 1


def find_item(src, path, toks=None):
    """path examples:
         fn validate_address
         impl BinArchive :: fn read_u32
         impl<'a> EncodedStringReader for crate::BinArchiveReader<'a> :: fn read_shift_jis_string
         struct BinArchive        enum ArchiveError        static TILE_ORDER
         impl BinArchive :: header   (the `impl ... ` header text only)
    """
    toks = toks or tokenize(src)
    parts = [p.strip() for p in path.split(" :: ")]
    lo, hi = 0, len(toks)
    item = None
    for depth, part in enumerate(parts):
        m = re.match(r"(fn|struct|enum|static|const|trait|type|mod)\s+(\w+)(?:\s*#(\d+))?$", part)
        found = None
        if m:
            kind, name, nth = m.group(1), m.group(2), int(m.group(3) or 0)
            cnt = 0
            for it in _scan_items(src, toks, lo, hi):
                if it[0] == kind and it[1] == name:
                    if cnt == nth:
                        found = it; break
                    cnt += 1
        elif part.startswith("impl"):
            mm = re.match(r"(.*?)(?:\s*#(\d+))?$", part)
            want, nth = _norm(mm.group(1)), int(mm.group(2) or 0)
            cnt = 0
            for it in _scan_items(src, toks, lo, hi):
                if it[0] == "impl" and _norm(it[1]) == want:
                    if cnt == nth:
                        found = it; break
                    cnt += 1
        else:
            raise ExtractError("bad item path component %r" % part)
        if not found:
            raise ExtractError("item not found: %s (component %r)" % (path, part))
        kind, name, first, last, body = found
        item = Item(src, kind, name, toks[first][2], toks[last][3],
                    body_open=toks[body][2] if body is not None else None, path=path)
        item.tok_first, item.tok_last, item.tok_body = first, last, body
        if body is not None:
            lo, hi = body + 1, last
    item.toks = toks
    return item


# ------------------------------------------------------------------- anchors

LOOP_KW = {"for", "while", "loop"}


def loop_vars(item):
    """name of the iteration variable of each loop (source order): the identifier after `for` when the pattern is a
    single identifier, else None.  Overlays write `$it<N>` for it, so renaming the variable keeps the annotations."""
    toks = item.toks
    out = []
    for kw, brace in _loops(item):
        name = None
        if toks[kw][1] == "for" and toks[kw + 1][0] == "id" and toks[kw + 2][0] == "id" and toks[kw + 2][1] == "in":
            name = toks[kw + 1][1]
        out.append(name)
    return out


def _loops(item):
    """token indices of loop keywords inside a fn body, source order, with the
    index of the '{' opening each loop body"""
    toks = item.toks
    res = []
    k = item.tok_body + 1
    while k < item.tok_last:
        t = toks[k]
        if t[0] == "id" and t[1] in LOOP_KW:
            prev = toks[k - 1]
            # `for<'a>` HRTB or `impl X for Y` never occur in statement position
            if t[1] == "for" and toks[k + 1][1] == "<":
                k += 1; continue
            j = k + 1
            while j < item.tok_last:
                u = toks[j]
                if u[0] == "p" and u[1] in "([":
                    j = match_close(toks, j)
                elif u[0] == "p" and u[1] == "{":
                    break
                j += 1
            res.append((k, j))
        k += 1
    return res


def line_start(src, pos):
    return src.rfind("\n", 0, pos) + 1


def line_end(src, pos):
    j = src.find("\n", pos)
    return len(src) if j < 0 else j + 1


def anchor_pos(item, anchor):
    """-> (char offset in item.src at which to insert, mode)
    anchors:
      spec                     between signature and body '{'
      body.begin               just after the body '{'
      body.end                 just before the closing '}' of the body
      loop N                   loop-spec position (before the '{' of the N-th loop)
      loop N begin|end|after   inside / after that loop's body
      before "<prefix>" [k]    before the k-th body line starting with prefix
      after "<prefix>" [k]     after the `;` that ends the statement starting there
      pre|post "<literal>" [k] inline, immediately before / after the k-th occurrence of the
                               literal text in the body (used to give a closure a result spec:
                               `|x|` + ` -> (o: T) ensures .. {` ... `x.to_owned()` + `}`)
    """
    src, toks = item.src, item.toks
    a = anchor.strip()
    if a == "spec":
        return item.body_open
    if a == "body.begin":
        return item.body_open + 1
    if a == "body.end":
        return line_start(src, toks[item.tok_last][2]) if src[line_start(src, toks[item.tok_last][2]):toks[item.tok_last][2]].strip() == "" else toks[item.tok_last][2]
    m = re.match(r"loop\s+(\d+)(?:\s+(begin|end|after))?$", a)
    if m:
        loops = _loops(item)
        n = int(m.group(1))
        if n >= len(loops):
            raise ExtractError("anchor lost: %s in %s (only %d loops)" % (a, item.path, len(loops)))
        kw, brace = loops[n]
        which = m.group(2)
        if which is None:
            return toks[brace][2]
        if which == "begin":
            return toks[brace][3]
        close = match_close(toks, brace)
        if which == "end":
            p = toks[close][2]
            ls = line_start(src, p)
            return ls if src[ls:p].strip() == "" else p
        return toks[close][3]
    m = re.match(r"(before|after)\s+\"(.*)\"(?:\s+(\d+))?$", a)
    if m:
        mode, prefix, nth = m.group(1), m.group(2), int(m.group(3) or 0)
        body_lo, body_hi = item.body_open + 1, toks[item.tok_last][2]
        pos = body_lo
        cnt = 0
        while pos < body_hi:
            le = line_end(src, pos)
            line = src[pos:le]
            stripped = line.lstrip()
            if stripped.startswith(prefix) and pos >= line_start(src, pos):
                if cnt == nth:
                    if mode == "before":
                        return pos
                    # after: find terminating ';' at relative depth 0
                    first_tok = next(i for i, t in enumerate(toks) if t[2] >= pos)
                    j = first_tok
                    while j < item.tok_last:
                        u = toks[j]
                        if u[0] == "p" and u[1] in OPEN:
                            j = match_close(toks, j)
                            # a block statement (if/match/for ...) ends at its '}' unless continued
                            if u[1] == "{" and toks[j + 1][1] not in ("else", ".", "?", ";", ")", ","):
                                return line_end(src, toks[j][3] - 1)
                        elif u[0] == "p" and u[1] == ";":
                            return line_end(src, u[2])
                        j += 1
                    raise ExtractError("anchor lost: no statement end for %s in %s" % (a, item.path))
                cnt += 1
            pos = le
        raise ExtractError("anchor lost: %s in %s" % (a, item.path))
    m = re.match(r"closure\s+(\d+)\s+(open|close)$", a)
    if m:
        # k-th closure in the body (source order): `open` = just after its parameter list
        # `|..|`, `close` = just before the bracket that closes the enclosing call (the closure is
        # the last argument) -- used to wrap a closure body as `-> (o: T) ensures .. { body }`
        want, which = int(m.group(1)), m.group(2)
        k, cnt = item.tok_body + 1, 0
        while k < item.tok_last:
            t = toks[k]
            if t[0] == "p" and t[1] == "|" and toks[k - 1][0] == "p" and toks[k - 1][1] in "(,=":
                j = k + 1
                while not (toks[j][0] == "p" and toks[j][1] == "|"):
                    j += 1
                if cnt == want:
                    if which == "open":
                        return toks[j][3]
                    d, e = 0, j + 1
                    while e < item.tok_last:
                        u = toks[e]
                        if u[0] == "p" and u[1] in OPEN:
                            e = match_close(toks, e)
                        elif u[0] == "p" and (u[1] in CLOSE or u[1] == ","):
                            return u[2]
                        e += 1
                    raise ExtractError("anchor lost: closure end in %s" % item.path)
                cnt += 1
                k = j
            k += 1
        raise ExtractError("anchor lost: %s in %s" % (a, item.path))
    m = re.match(r"(pre|post)\s+\"(.*)\"(?:\s+(\d+))?$", a)
    if m:
        mode, lit, nth = m.group(1), m.group(2), int(m.group(3) or 0)
        body_lo, body_hi = item.body_open + 1, toks[item.tok_last][2]
        pos, cnt = body_lo, 0
        while True:
            j = src.find(lit, pos, body_hi)
            if j < 0:
                raise ExtractError("anchor lost: %s in %s" % (a, item.path))
            if cnt == nth:
                return j if mode == "pre" else j + len(lit)
            cnt += 1
            pos = j + 1
    raise ExtractError("unknown anchor syntax %r" % anchor)



def closures(item):
    """closures in a fn body, source order (same numbering as the `closure N` anchors):
    -> list of (tok index of opening '|', tok index of closing '|', char offset of the closure end)"""
    toks = item.toks
    res = []
    k = item.tok_body + 1
    while k < item.tok_last:
        t = toks[k]
        if t[0] == "p" and t[1] == "|" and toks[k - 1][0] == "p" and toks[k - 1][1] in "(,=":
            j = k + 1
            while not (toks[j][0] == "p" and toks[j][1] == "|"):
                j += 1
            e, end = j + 1, None
            while e < item.tok_last:
                u = toks[e]
                if u[0] == "p" and u[1] in OPEN:
                    e = match_close(toks, e)
                elif u[0] == "p" and (u[1] in CLOSE or u[1] == ","):
                    end = u[2]; break
                e += 1
            if end is None:
                raise ExtractError("closure end not found in %s" % item.path)
            res.append((k, j, end))
            k = j
        k += 1
    return res


def r7_closure_patterns(item):
    """R7: a closure whose single parameter is a tuple pattern or `_`
           |(a, b)| body        |_| body
    is emitted as
           |__pK| { let (a, b) = __pK; body }        |__pK| { let _ = __pK; body }
    (Verus accepts only plain variables as closure parameters; the two forms are the same
    program -- a closure parameter pattern *is* a `let` of the argument).  Implemented as four
    pure insertions, so strip-and-compare removes it like any other inserted text:
      `/*R7` before the pattern and `R7*/__pK` after it (the pattern is commented out, kept
      verbatim), `{ let PAT = __pK;` after the parameter list (after an overlay `closure K open`
      text, if any) and `}` at the closure end (before an overlay `closure K close`).
    -> list of (offset, order, text)"""
    toks, src = item.toks, item.src
    out = []
    for n, (a, b, end) in enumerate(closures(item)):
        inner = toks[a + 1:b]
        if not inner:
            continue
        is_tuple = inner[0][1] == "(" and match_close(toks, a + 1) == b - 1
        is_wild = len(inner) == 1 and inner[0][1] == "_"
        if not (is_tuple or is_wild):
            continue
        p0, p1 = inner[0][2], inner[-1][3]
        pat = src[p0:p1]
        var = "__p%d" % n
        out.append((p0, -1, "/*R7"))
        out.append((p1, -1, "R7*/" + var))
        out.append((toks[b][3], 10 ** 6, " { let %s = %s; " % (pat, var)))
        out.append((end, -2, " } "))
    return out

# ------------------------------------------------------------------ rewrites
# Closed list.  Each returns (new_text, count).  They operate on the text of one
# extracted item *before* overlay insertion and are invertible (see invert_*).

def r1_pub_fields(text):
    """R1: add `pub` to named struct fields that lack it, and to the struct itself (a `pub fn`
    contract may not name a private type or field; visibility has no run-time meaning)."""
    out, cnt = [], 0
    depth = 0
    for line in text.split("\n"):
        s = line.lstrip()
        if depth == 0 and re.match(r"struct\s", s):
            line = line[:len(line) - len(s)] + "/*R1*/pub " + s
            cnt += 1
        if depth == 1 and re.match(r"[a-z_][A-Za-z0-9_]*\s*:", s):
            line = line[:len(line) - len(s)] + "/*R1*/pub " + s
            cnt += 1
        depth += line.count("{") - line.count("}")
        out.append(line)
    return "\n".join(out), cnt


def r2_drop_type_attrs(text):
    """R2: drop outer attributes of extracted types (derive of anything but
    Default/Clone/Copy/Debug/PartialEq/Eq, #[error], #[from], #[allow], #[br] ...).
    The dropped text is kept in a marker comment so the inversion is exact."""
    cnt = 0

    def repl(m):
        nonlocal cnt
        body = m.group(0)
        keep = re.match(r"#\[derive\(([^)]*)\)\]", body)
        if keep:
            names = [x.strip() for x in keep.group(1).split(",") if x.strip()]
            if all(nm in ("Debug", "Clone", "Copy", "Default", "PartialEq", "Eq") for nm in names):
                # Debug is harmless but Verus ignores it; PartialEq/Eq need vstd support -> drop those
                if all(nm in ("Clone", "Copy", "Default", "Debug") for nm in names):
                    return body
        cnt += 1
        return "/*R2 " + body.replace("*/", "*\\/") + " R2*/"
    new = re.sub(r"#\[(?:[^\[\]]|\[[^\]]*\])*\]", repl, text)
    return new, cnt


def r3_name_result(sig, name="r"):
    """R3: `-> T` becomes `-> (r: T)` in a fn signature (text up to the body '{')."""
    toks = tokenize(sig)
    depth = 0
    arrow = None
    for i, t in enumerate(toks):
        if t[0] == "p" and t[1] in "([<":
            depth += 1
        elif t[0] == "p" and t[1] in ")]":
            depth -= 1
        elif t[0] == "p" and t[1] == ">":
            if i > 0 and toks[i - 1][1] == "-" and toks[i - 1][3] == t[2]:
                if depth == 0:
                    arrow = t
            else:
                depth -= 1
    if arrow is None:
        return sig, 0
    rest = sig[arrow[3]:]
    # return type ends at `where` (depth 0) or end of signature
    end = len(rest)
    m = re.search(r"\bwhere\b", rest)
    if m:
        end = m.start()
    ty = rest[:end]
    core = ty.strip()
    lead = ty[:len(ty) - len(ty.lstrip())]
    trail = ty[len(ty.rstrip()):]
    new = sig[:arrow[3]] + lead + "/*R3*/(" + name + ": " + core + ")/*R3*/" + trail + rest[end:]
    return new, 1


def r6_dep_2015(text):
    """R6 (dependency source, 2015 edition only): bare trait objects `&mut Read` -> `&mut dyn Read`, and the error
    type `Box<::std::error::Error>` -> the opaque stand-in `BoxDynError` (errors are only propagated by `?`; no
    branch inspects them).  Marked so that the inversion is exact."""
    n = 0
    def a(m):
        nonlocal n; n += 1
        return "&mut /*R6*/dyn /*R6*/Read"
    text = re.sub(r"&mut Read\b", a, text)
    def b(m):
        nonlocal n; n += 1
        return "/*R6 " + m.group(0) + " R6*/BoxDynError"
    text = re.sub(r"Box<::std::error::Error>", b, text)
    return text, n


def invert_rewrites(text):
    text = text.replace("/*R6*/dyn /*R6*/", "")
    text = re.sub(r"/\*R6 (.*?) R6\*/BoxDynError", lambda m: m.group(1), text, flags=re.S)
    text = text.replace("/*R1*/pub ", "")
    text = re.sub(r"/\*R2 (.*?) R2\*/", lambda m: m.group(1).replace("*\\/", "*/"), text, flags=re.S)
    text = re.sub(r"/\*R3\*/\(\w+: (.*?)\)/\*R3\*/", lambda m: m.group(1), text, flags=re.S)
    return text
