#!/usr/bin/env python3
"""trypatch -- run checks against a scratch copy of /repo with a patch applied (never touches /repo).
   tools/trypatch.py <patch.diff> C15 [C05 ...]"""
import sys, os, subprocess, tempfile, shutil
VERIF = os.path.dirname(os.path.dirname(os.path.abspath(__file__)))
patch, pids = sys.argv[1], sys.argv[2:]
t = tempfile.mkdtemp(prefix="mila-verif-try.", dir="/var/tmp")
out = tempfile.mkdtemp(prefix="mila-verif-tryout.", dir="/var/tmp")
try:
    for d in ("src", "resources"):
        shutil.copytree(os.path.join("/repo", d), os.path.join(t, d))
    for f in ("Cargo.toml", "Cargo.lock"):
        shutil.copy(os.path.join("/repo", f), t)
    subprocess.run("git init -q . && git add -A && git -c user.email=a@b -c user.name=x commit -qm base", shell=True, cwd=t)
    p = subprocess.run(["git", "apply", "--whitespace=nowarn", os.path.abspath(patch)], cwd=t, capture_output=True, text=True)
    if p.returncode:
        # the tree has moved since the seed was written (fix commits): retry with fuzz
        p = subprocess.run("patch -p1 -F3 --no-backup-if-mismatch < %s" % os.path.abspath(patch), shell=True, cwd=t, capture_output=True, text=True)
        if p.returncode:
            print("patch does not apply:", p.stdout[-300:], p.stderr[-300:]); sys.exit(3)
        print("(applied with fuzz)")
    for pid in pids:
        r = subprocess.run(["./check", pid], cwd=VERIF, env=dict(os.environ, MILA_REPO=t, MILA_OUT=out), capture_output=True, text=True)
        print("== %s exit %d" % (pid, r.returncode))
        print("\n".join(l for l in r.stdout.split("\n") if l.startswith(("VIOLATION", "  obligation", "UNDECIDED", "OK ", "KNOWN")))[:3000])
finally:
    shutil.rmtree(t, ignore_errors=True); shutil.rmtree(out, ignore_errors=True)
