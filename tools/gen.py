#!/usr/bin/env python3
import sys, os
sys.path.insert(0, os.path.dirname(os.path.abspath(__file__)))
import assemble
u = assemble.assemble(sys.argv[1])
n = assemble.strip_and_compare(u)
out = sys.argv[2] if len(sys.argv) > 2 else "/verif/gen/%s.rs" % sys.argv[1]
os.makedirs(os.path.dirname(out), exist_ok=True)
open(out, "w").write(u.text())
print("wrote", out, "items", len(u.items), "strip-compare ok for", n, "rewrites", u.rewrites)
