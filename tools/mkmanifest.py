#!/usr/bin/env python3
"""mkmanifest -- MANIFEST.json is generated from contracts/properties.json so the two cannot drift."""
import json, os
V = os.path.dirname(os.path.dirname(os.path.abspath(__file__)))
props = json.load(open(os.path.join(V, "contracts", "properties.json")))
ids = [json.loads(l)["id"] for l in open(os.path.join(V, "properties.jsonl"))]
checks, na = [], []
for pid in ids:
    c = props.get(pid, {})
    if c.get("claimed"):
        checks.append({
            "property_id": pid,
            "quick_cmd": "./check %s --tier quick" % pid,
            "thorough_cmd": "./check %s --tier thorough" % pid,
            "evidence_file": "/verif/evidence/%s.json" % pid,
            "replay_cmd_template": "./check --replay {path}",
            "engine": "contracts",
            "level_claimed": {"category": c["level"], "text": c["level_text"], "design_ref": c.get("design_ref", "DESIGN.md section 4")},
            "level_note": c["level_note"],
            "technique": c["technique"],
        })
    else:
        na.append({"property_id": pid, "reason": c.get("na_reason", "reachable per DESIGN.md section 4, check not built yet")})
m = {
    "version": 1,
    "setup_cmd": "./setup.sh",
    "hooks": {"guard": "kani", "enable": "no source hooks: contracts and harnesses are injected into a scratch copy of /repo under /var/tmp on every run (cfg(kani) exists only there); Verus reads /repo/src directly",
              "baseline_off_cmd": "./baseline.sh", "source_commits": [], "add_only": True},
    "engines": [{"name": "contracts", "path": "/verif/tools", "serves_properties": [c["property_id"] for c in checks],
                 "kind_free_text": "contract-based deductive verification: function bodies extracted verbatim from /repo (and, for C11, from the pinned dependency source) on every run, annotated from /verif/contracts, discharged by Verus (Z3) and Kani (CBMC); bounded native companions (contracts/native) as stand-ins where neither verifier reaches"}],
    "checks": checks,
    "not_applicable": na,
    "notes": "fix commits in /repo: see known_findings.json (status=fixed; replay tests under fixes/). DESIGN.md sections 8-10 record what was built, the assumptions and the per-property verdicts (table in 9.7, changes in 10.6). Checks named native_* are bounded stand-ins (executable contract clauses on the real code over a stated finite family), never counted as proved.",
}
json.dump(m, open(os.path.join(V, "MANIFEST.json"), "w"), indent=1)
print("claimed:", [c["property_id"] for c in checks])
