"""assemble -- build one Verus input file per unit from
   * the unit template   contracts/units/<unit>.vrs
   * the contract store  contracts/specs/*.spec   (one overlay per repo function)
   * the environment     contracts/env/*.vrs      (assumed specs, stand-ins)
   * the *current* text of /repo (or of the pinned dependency source)

Template directives (each on its own line):
   //@include env/x.vrs              textual include (recursive)
   //@body <file> :: <item path>     extract item verbatim, apply its overlay, verify the body
   //@contract <file> :: <item path> extract signature only, attach the same overlay `spec`,
                                     emit as #[verifier::external_body] (assumed *here*; the unit
                                     that has it in //@body mode proves it)
   //@type <file> :: <item path>     extract a struct/enum with rewrites R1,R2

Store format (contracts/specs/*.spec):
   //@for <file> :: <item path>
   //@props C04 C05                  properties a failure in this function is charged to
   //@ret r                          rewrite R3
   //@attr #[verifier::...]          attribute line put in front of the item
   //@at <anchor>                    following lines are inserted at the anchor
   ...
   //@end
A clause line may end in   // #clause_id [C04 ...]   which names the obligation and
optionally narrows the properties it is charged to.
"""
import os, re, json, hashlib
import rsx
from rsx import ExtractError

VERIF = os.path.dirname(os.path.dirname(os.path.abspath(__file__)))
REPO = os.environ.get("MILA_REPO", "/repo")

MARK_IN, MARK_OUT = "/*@<*/", "/*@>*/"


def norm_key(s):
    return re.sub(r"\s+", " ", s.strip())


class Overlay:
    def __init__(self, key, specfile):
        self.key, self.specfile = key, specfile
        self.props, self.ret, self.attrs = [], None, []
        self.inserts = []        # (anchor, text, first_line_in_specfile)
        self.dep = False


def load_store(root=None):
    root = root or os.path.join(VERIF, "contracts", "specs")
    store = {}
    for fn in sorted(os.listdir(root)):
        if not fn.endswith(".spec"):
            continue
        path = os.path.join(root, fn)
        cur, anchor, buf, buf_line = None, None, [], 0
        for ln, line in enumerate(open(path).read().split("\n"), 1):
            s = line.strip()
            if s.startswith("//@for "):
                cur = Overlay(norm_key(s[7:]), "contracts/specs/" + fn)
                anchor = None
            elif cur is None:
                continue
            elif s.startswith("//@props"):
                cur.props = s.split()[1:]
            elif s.startswith("//@ret"):
                cur.ret = s.split()[1]
            elif s.startswith("//@attr "):
                cur.attrs.append(s[8:])
            elif s.startswith("//@at ") or s == "//@end":
                if anchor is not None:
                    cur.inserts.append((anchor, "\n".join(buf), buf_line))
                buf = []
                if s == "//@end":
                    if cur.key in store:
                        raise ExtractError("duplicate overlay for " + cur.key)
                    store[cur.key] = cur
                    cur, anchor = None, None
                else:
                    anchor, buf_line = s[6:].strip(), ln + 1
            elif anchor is not None:
                buf.append(line)
    return store


def resolve_file(rel):
    """`src/x.rs` -> /repo/src/x.rs ; `dep:nintendo-lz/src/lib.rs` -> registry path"""
    if rel.startswith("dep:"):
        name, sub = rel[4:].split("/", 1)
        import glob
        cands = sorted(glob.glob(os.path.expanduser("~/.cargo/registry/src/*/%s-*/%s" % (name, sub))))
        lock = open(os.path.join(REPO, "Cargo.lock")).read()
        m = re.search(r'name = "%s"\nversion = "([^"]+)"' % re.escape(name), lock)
        if m:
            cands = [c for c in cands if "/%s-%s/" % (name, m.group(1)) in c] or cands
        if not cands:
            raise ExtractError("dependency source not found: " + rel)
        return cands[0]
    return os.path.join(REPO, rel)


class Segment:
    __slots__ = ("text", "origin", "file", "line", "item", "specfile")

    def __init__(self, text, origin, file=None, line=0, item=None):
        self.text, self.origin, self.file, self.line, self.item = text, origin, file, line, item


class Unit:
    def __init__(self, name):
        self.name = name
        self.segs = []
        self.items = []          # dicts: key, mode, file, lines, sha, props, rewrites
        self.rewrites = {"R1": 0, "R2": 0, "R3": 0}
        self.assumed = []
        self.skipped = {}        # item key -> [anchors that no longer exist in the repo text]
        self.skipped_harmless = {}   # ... of which: annotations of loops that no longer exist

    def add(self, text, origin, file=None, line=0, item=None):
        if text:
            self.segs.append(Segment(text, origin, file, line, item))

    def text(self):
        return "".join(s.text for s in self.segs)


_src_cache = {}


def _load(relfile):
    p = resolve_file(relfile)
    st = os.stat(p)
    k = (p, st.st_mtime_ns, st.st_size)
    if k not in _src_cache:
        src = open(p).read()
        _src_cache[k] = (src, rsx.tokenize(src))
    return _src_cache[k]


def clauses_only(text, only, key):
    """keep everything up to and including the `ensures` keyword (all requires clauses), then only the
    single-line ensures clauses tagged `// #<tag>` with a tag in `only`"""
    out, in_ens, found = [], False, set()
    for line in text.split("\n"):
        if not in_ens:
            out.append(line)
            if re.match(r"\s*ensures\b", line):
                if line.strip() != "ensures":
                    raise ExtractError("contract ... only: `ensures` must stand on its own line in " + key)
                in_ens = True
            continue
        m = re.search(r"//\s*#(\w+)", line)
        if m and m.group(1) in only:
            if not line.split("//")[0].rstrip().endswith(","):
                raise ExtractError("contract ... only: clause #%s of %s is not a single line" % (m.group(1), key))
            out.append(line); found.add(m.group(1))
    missing = [t for t in only if t not in found]
    if missing:
        raise ExtractError("contract ... only: no clause tagged %s in %s" % (", ".join("#" + t for t in missing), key))
    return "\n".join(out)


def emit_item(unit, store, relfile, path, mode, only=None, variant=""):
    src, toks = _load(relfile)
    item = rsx.find_item(src, path, toks)
    key = norm_key(relfile + " :: " + path)
    ov = store.get(key + variant)
    a, b = item.lines()
    info = {"key": key, "mode": mode, "file": relfile, "lines": [a, b],
            "sha256": hashlib.sha256(item.text.encode()).hexdigest()[:16],
            "props": ov.props if ov else [], "name": item.name, "kind": item.kind}
    unit.items.append(info)
    base_line = a
    unit.add("//@@begin-item %s [%s]\n" % (key, mode), "marker", item=key)

    if item.kind in ("struct", "enum"):
        txt, c1 = rsx.r1_pub_fields(item.text) if item.kind == "struct" else (item.text, 0)
        txt, c2 = rsx.r2_drop_type_attrs(txt)
        unit.rewrites["R1"] += c1; unit.rewrites["R2"] += c2
        if ov:
            for at in ov.attrs:
                unit.add(MARK_IN + at + MARK_OUT + "\n", "overlay", ov.specfile, 0, key)
        unit.add(txt, "repo", relfile, base_line, key)
        unit.add("\n//@@end-item\n", "marker", item=key)
        if rsx.invert_rewrites(txt) != item.text:
            raise ExtractError("strip-and-compare failed for " + key)
        return

    if item.kind != "fn" or item.body_open is None:
        if item.kind == "fn":   # trait method declaration
            unit.add(item.text, "repo", relfile, base_line, key)
            unit.add("\n//@@end-item\n", "marker", item=key)
            return
        unit.add(item.text, "repo", relfile, base_line, key)
        unit.add("\n//@@end-item\n", "marker", item=key)
        return

    sig = src[item.start:item.body_open]
    body = src[item.body_open:item.end]
    sig_line = base_line
    body_line = src.count("\n", 0, item.body_open) + 1
    if relfile.startswith("dep:"):
        sig, c6 = rsx.r6_dep_2015(sig)
        unit.rewrites["R6"] = unit.rewrites.get("R6", 0) + c6
    if ov and ov.ret:
        sig2, c = rsx.r3_name_result(sig, ov.ret)
        if not c:
            raise ExtractError("rewrite R3 not applicable to " + key)
        unit.rewrites["R3"] += c
    else:
        sig2 = sig
    # collect insertions
    ins = []   # (offset in src, order, text, specline)
    if ov:
        for order, (anchor, text, sline) in enumerate(ov.inserts):
            if mode == "contract" and anchor != "spec":
                continue
            try:
                pos = rsx.anchor_pos(item, anchor)
            except ExtractError:
                # Lenient anchors: an annotation whose anchor no longer exists (a loop that was removed, a
                # statement that was rewritten) is left out and the body is verified without it.  If the
                # body still verifies, that is a proof; if it does not, the failure is NOT trusted
                # (verus_run reports UNDECIDED for that function).  The contract (`spec`) is never skipped.
                if anchor == "spec":
                    raise
                # an annotation for a loop that no longer exists (or the label naming its iterator) has
                # nothing left to annotate: leaving it out does not weaken the proof of the remaining body
                harmless = False
                m = re.match(r"loop\s+(\d+)", anchor)
                if m and int(m.group(1)) >= len(rsx._loops(item)):
                    harmless = True
                if anchor.startswith("pre ") and re.match(r"^\s*\w+:\s*$", text):
                    harmless = True
                (unit.skipped_harmless if harmless else unit.skipped).setdefault(key, []).append(anchor)
                continue
            if "$it" in text:
                # `$it<N>`: the iteration variable of the N-th loop as the current source names it
                lv = rsx.loop_vars(item)
                def _sub(m):
                    n = int(m.group(1))
                    if n >= len(lv) or lv[n] is None:
                        raise ExtractError("anchor lost: $it%d in %s (loop has no single iteration variable)" % (n, item.path))
                    return lv[n]
                try:
                    text = re.sub(r"\$it(\d+)", _sub, text)
                except ExtractError:
                    unit.skipped.setdefault(key, []).append(anchor + " ($it)")
                    continue
            ins.append((pos, order, anchor, text, sline))
    if mode == "body":
        r7 = rsx.r7_closure_patterns(item)
        for pos, order, text in r7:
            ins.append((pos, order, "raw", text, 0))
        unit.rewrites["R7"] = unit.rewrites.get("R7", 0) + len(r7) // 4
    ins.sort(key=lambda x: (x[0], x[1]))
    attrs = list(ov.attrs) if ov else []
    if mode == "contract":
        attrs.append("#[verifier::external_body]")
    for at in attrs:
        unit.add(MARK_IN + at + MARK_OUT + "\n", "overlay", ov.specfile if ov else None, 0, key)
    # signature (possibly R3-rewritten)
    unit.add(sig2.rstrip() + "\n", "repo", relfile, sig_line, key)
    for pos, order, anchor, text, sline in ins:
        if anchor == "spec":
            if only is not None:
                text = clauses_only(text, only, key)
            unit.add(MARK_IN + "\n", "marker", item=key)
            unit.add(text + "\n", "overlay", ov.specfile, sline, key)
            unit.add(MARK_OUT + "\n", "marker", item=key)
    if mode == "contract":
        unit.add(MARK_IN + "{ unimplemented!() }" + MARK_OUT + "\n", "marker", item=key)
        unit.add("//@@end-item\n", "marker", item=key)
        return
    # body with insertions
    cur = item.body_open
    for pos, order, anchor, text, sline in ins:
        if anchor == "spec":
            continue
        if pos < cur:
            raise ExtractError("overlapping anchors in " + key)
        unit.add(src[cur:pos], "repo", relfile, src.count("\n", 0, cur) + 1, key)
        if anchor == "raw":          # rewrite R7: inline, not stripped of whitespace, marked as inserted text
            unit.add(MARK_IN + text + MARK_OUT, "marker", item=key)
            cur = pos
            continue
        if anchor.startswith("pre ") or anchor.startswith("post ") or anchor.startswith("closure "):
            unit.add(MARK_IN, "marker", item=key)
            unit.add(" " + text.strip() + " ", "overlay", ov.specfile, sline, key)
            unit.add(MARK_OUT, "marker", item=key)
            cur = pos
            continue
        # keep the inserted text on its own lines
        pre = "" if (pos == 0 or src[pos - 1] == "\n") else "\n"
        unit.add(pre + MARK_IN + "\n", "marker", item=key)
        unit.add(text + "\n", "overlay", ov.specfile, sline, key)
        unit.add(MARK_OUT + ("" if src[pos:pos + 1] == "\n" else "\n"), "marker", item=key)
        cur = pos
    unit.add(src[cur:item.end], "repo", relfile, src.count("\n", 0, cur) + 1, key)
    unit.add("\n//@@end-item\n", "marker", item=key)


def assemble(unit_name, store=None):
    store = store or load_store()
    unit = Unit(unit_name)
    tpath = os.path.join(VERIF, "contracts", "units", unit_name + ".vrs")

    def process(path, depth=0):
        rel = os.path.relpath(path, VERIF)
        for ln, line in enumerate(open(path).read().split("\n"), 1):
            s = line.strip()
            if s.startswith("//@include "):
                process(os.path.join(VERIF, "contracts", s[11:].strip()), depth + 1)
            elif s.startswith("//@body ") or s.startswith("//@contract ") or s.startswith("//@type "):
                mode, rest = s[3:].split(" ", 1)
                only = None
                if mode == "contract" and " only " in rest:
                    # `//@contract <key> only #tag1 #tag2`: the caller sees just these ensures clauses of the
                    # callee's (proved) contract -- a subset of proved clauses is implied by the whole; every
                    # requires clause is kept
                    rest, tags = rest.split(" only ", 1)
                    only = [t.strip().lstrip("#") for t in tags.split() if t.strip()]
                variant = ""
                m = re.search(r"\s(@\w+)\s*$", rest)
                if m:
                    # `... :: fn name @variant`: a second, independent overlay for the same function (store key
                    # `<key> @variant`), so that a stronger contract can live in its own unit
                    variant, rest = " " + m.group(1), rest[:m.start()]
                relfile, ipath = rest.split(" :: ", 1)
                emit_item(unit, store, relfile.strip(), ipath.strip(), mode, only, variant)
            else:
                unit.add(line + "\n", "template", rel, ln)
    process(tpath)
    return unit


def strip_and_compare(unit):
    """Self-check: remove everything the assembler inserted from every `body`/`type`
    item, invert R1-R3, and compare with the repo text.  Raises on mismatch."""
    text = unit.text()
    checked = 0
    for m in re.finditer(r"//@@begin-item ([^\n]*?) \[(body|type)\]\n(.*?)\n//@@end-item\n", text, re.S):
        key, mode, gen = m.group(1), m.group(2), m.group(3)
        relfile, ipath = key.split(" :: ", 1)
        src, toks = _load(relfile)
        item = rsx.find_item(src, ipath, toks)
        # drop inserted text
        g = re.sub(re.escape(MARK_IN) + r".*?" + re.escape(MARK_OUT) + r"\n?", "", gen, flags=re.S)
        g = rsx.invert_rewrites(g)
        if _ws(g) != _ws(item.text):
            raise ExtractError("strip-and-compare mismatch for %s" % key)
        checked += 1
    return checked


def _ws(s):
    # newlines introduced around insertions are the only whitespace difference allowed
    return re.sub(r"\s+", "", s)


class LineMap:
    def __init__(self, unit):
        self.entries = []     # (gen_start_offset, gen_end_offset, seg)
        off = 0
        for s in unit.segs:
            self.entries.append((off, off + len(s.text), s))
            off += len(s.text)
        self.text = unit.text()
        self.line_offsets = [0]
        for i, ch in enumerate(self.text):
            if ch == "\n":
                self.line_offsets.append(i + 1)

    def offset(self, line, col):
        return self.line_offsets[line - 1] + (col - 1)

    def lookup(self, line, col=1):
        off = self.offset(line, col)
        for a, b, s in self.entries:
            if a <= off < b:
                rel = self.text.count("\n", a, off)
                return {"origin": s.origin, "file": s.file, "line": (s.line + rel) if s.line else 0,
                        "item": s.item, "gen_line": line}
        return {"origin": "?", "file": None, "line": 0, "item": None, "gen_line": line}

    def gen_line_text(self, line):
        a = self.line_offsets[line - 1]
        b = self.line_offsets[line] if line < len(self.line_offsets) else len(self.text)
        return self.text[a:b].rstrip("\n")
