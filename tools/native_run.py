"""native_run -- bounded companion units: the real crate, compiled natively from the tree under check,
is run on a stated finite input family and each contract clause is evaluated in executable form
(contracts/native/<unit>.rs, appended to src/lib.rs of a scratch copy as a #[cfg(test)] module).

Label: bounded(<family>) -- never counted as proved.  A failed clause comes with the concrete input and
is by construction confirmed on the real code; the replay command re-runs exactly that harness.
Compile errors (the harness uses only the public API, so this means the API changed) -> UNDECIDED.
"""
import os, re, json, shutil, subprocess, time, hashlib, fcntl
import assemble, rsx, kani_run
from verus_run import UnitResult, Failure

VERIF = assemble.VERIF
CACHE = os.path.join(VERIF, ".cache", "native-deps")


def ensure_deps_cache(overflow_checks=False):
    """compiled dependencies (release, test profile) once per build flavour; every run copies it -- runs never
    share a target dir"""
    cache = CACHE + ("-oc" if overflow_checks else "")
    os.makedirs(os.path.dirname(cache), exist_ok=True)
    lock = open(cache + ".lock", "w")
    fcntl.flock(lock, fcntl.LOCK_EX)
    try:
        if os.path.exists(os.path.join(cache, ".complete")):
            return cache
        shutil.rmtree(cache, ignore_errors=True)
        tmp = kani_run.make_scratch("mila-verif-nativedeps.")
        try:
            env = dict(os.environ, CARGO_TARGET_DIR=cache, CARGO_NET_OFFLINE="true")
            if overflow_checks:
                env["CARGO_PROFILE_RELEASE_OVERFLOW_CHECKS"] = "true"
            p = subprocess.run(["cargo", "test", "--release", "--offline", "--lib", "--no-run"], cwd=tmp, env=env,
                               capture_output=True, text=True, timeout=3600)
            if p.returncode != 0:
                raise RuntimeError("could not build the native dependency cache: " + p.stderr[-600:])
            for root, dirs, files in os.walk(cache, topdown=False):
                for n in files:
                    if n.startswith(("mila-", "libmila-", "mila.")) or "/mila-" in root:
                        os.remove(os.path.join(root, n))
                for n in dirs:
                    if n.startswith("mila-"):
                        shutil.rmtree(os.path.join(root, n), ignore_errors=True)
            open(os.path.join(cache, ".complete"), "w").write("ok\n")
        finally:
            shutil.rmtree(tmp, ignore_errors=True)
        return cache
    finally:
        fcntl.flock(lock, fcntl.LOCK_UN)


def run_unit(uname, ucfg, tier, keep=False):
    r1 = _run_unit(uname, ucfg, tier, keep, overflow_checks=False)
    if not ucfg.get("overflow_checks_too") or r1.status == "undecided":
        return r1
    # "behaves identically with and without arithmetic overflow checks": the same harness once more in a build
    # with overflow checks on; its failed clauses are reported with the suffix [overflow-checks build]
    r2 = _run_unit(uname, ucfg, tier, keep, overflow_checks=True)
    if r2.status == "undecided":
        return r2
    have = set(f.clause for f in r1.failures)
    for f in r2.failures:
        f.clause = f.clause + "[overflow-checks build]"
        r1.failures.append(f)
    for fn in r1.functions:
        fn["label"] = fn["label"] + " in wrapping and in overflow-checked builds"
        fn["success"] = fn["success"] and all(g["success"] for g in r2.functions if g["props"] == fn["props"])
    if r1.failures:
        r1.status = "failed"
    r1.cmd += "   ; again with CARGO_PROFILE_RELEASE_OVERFLOW_CHECKS=true"
    r1.wall_s += r2.wall_s
    r1.errors = len(r1.failures)
    return r1


def _run_unit(uname, ucfg, tier, keep=False, overflow_checks=False):
    res = UnitResult(uname)
    t0 = time.time()
    tmp = kani_run.make_scratch("mila-verif-native.")
    try:
        hsrc = open(os.path.join(VERIF, "contracts", "native", uname + ".rs")).read()
        shutil.copy(os.path.join(VERIF, "contracts", "native", "common.rs"), os.path.join(tmp, "src", "__verif_native_common.rs"))
        for extra in ucfg.get("extra_files", []):
            shutil.copy(os.path.join(VERIF, "contracts", "native", extra), os.path.join(tmp, "src", "__verif_" + extra))
        target = ucfg.get("append_to", "src/lib.rs")
        with open(os.path.join(tmp, target), "a") as f:
            f.write("\n\n" + hsrc)
        cache = ensure_deps_cache(overflow_checks)
        private_target = os.path.join(tmp, "target")
        shutil.copytree(cache, private_target, symlinks=True)
        modname = "__verif_" + uname
        cmd = ["cargo", "test", "--release", "--offline", "--lib", modname, "--", "--nocapture", "--test-threads", "1"]
        env = dict(os.environ, CARGO_TARGET_DIR=private_target, CARGO_NET_OFFLINE="true", VERIF_TIER=tier)
        if overflow_checks:
            env["CARGO_PROFILE_RELEASE_OVERFLOW_CHECKS"] = "true"
        res.cmd = " ".join(cmd) + "   (scratch copy of /repo + contracts/native/%s.rs appended to %s)" % (uname, target)
        try:
            p = subprocess.run(cmd, cwd=tmp, env=env, capture_output=True, text=True, timeout=ucfg.get("timeout", 1800))
        except subprocess.TimeoutExpired:
            res.status, res.reason = "undecided", "native companion timeout"
            return res
        out = p.stdout + "\n" + p.stderr
        res.trusted = ["native companion: rustc/cargo release build of the tree under check; reference decoders / models in contracts/native/%s.rs are part of the oracle" % uname]
        if "error: could not compile" in out:
            m = re.search(r"(error(\[\w+\])?: [^\n]+\n[^\n]*\n[^\n]*)", out)
            res.status, res.reason = "undecided", "native companion does not compile against this tree (public API changed?): %s" % (m.group(1) if m else out[-300:])
            return res
        done = re.search(r"NATIVE-DONE unit=(\S+) failed_clauses=(\d+)", out)
        clauses = {m.group(1): int(m.group(2)) for m in re.finditer(r"NATIVE-CLAUSE unit=\S+ clause=(\S+) evaluations=(\d+)", out)}
        fails = {}
        for m in re.finditer(r"NATIVE-FAIL unit=\S+ clause=(\S+) input=(.*)", out):
            fails.setdefault(m.group(1), []).append(m.group(2).strip())
        if not done:
            # the harness itself died (a panic outside no_panic, an abort): report what is known
            m = re.search(r"panicked at ([^\n]*)\n([^\n]*)", out)
            if m and not fails:
                res.status, res.reason = "undecided", "native companion aborted: %s %s" % (m.group(1)[:200], m.group(2)[:200])
                return res
            if not fails:
                res.status, res.reason = "undecided", "native companion produced no verdict: " + out[-300:].replace("\n", " ")
                return res
        props_all = ucfg.get("properties", [])
        per_prop = {}
        for c, n in clauses.items():
            pid = c.split(".", 1)[0]
            per_prop.setdefault(pid, [0, 0])
            per_prop[pid][0] += 1; per_prop[pid][1] += n
        for pid in props_all:
            nc, ne = per_prop.get(pid, [0, 0])
            failed_here = [c for c in fails if c.startswith(pid + ".")]
            res.functions.append({
                "function": "%s [native companion, %s clauses]" % (ucfg.get("functions", uname), pid), "item": None, "lines": "", "sha256": "",
                "backend": "native (rustc release build of the real crate)", "label": "bounded(%s)" % ucfg.get("bound", "see harness"),
                "harness": uname, "success": not failed_here, "smt_ms": None, "rlimit": None,
                "named_clauses": nc, "implicit_obligations": 0, "clause_evaluations": ne,
                "props": [pid], "bound": ucfg.get("bound"),
            })
        for c, inputs in fails.items():
            f = Failure()
            f.kind, f.unit = "native", uname
            f.function = ucfg.get("functions", uname) + " [companion]"
            f.clause = c
            f.props = [c.split(".", 1)[0]]
            f.site = "contracts/native/%s.rs" % uname
            f.message = "clause %s is false on the real code for a concrete input" % c
            f.rendered = "\n".join(inputs)
            f.failing_input = {"inputs": inputs}
            f.replay_test = {"command": "./check %s   (re-runs contracts/native/%s.rs on the current tree)" % (f.props[0], uname),
                             "native_result": "FAILED"}
            f.confirmed = True
            res.failures.append(f)
        if res.failures:
            res.status = "failed"
        res.verified = sum(1 for f in res.functions if f["success"])
        res.errors = len(res.failures)
        return res
    finally:
        res.wall_s = time.time() - t0
        if not keep:
            shutil.rmtree(tmp, ignore_errors=True)
