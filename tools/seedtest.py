#!/usr/bin/env python3
"""seedtest -- confirm a seeded property-breaking change and run the checks against it.

  tools/seedtest.py <property> <src_dir> <name> [--checks C04,C05]

<src_dir> holds patch.diff, demo.rs (a #[cfg(test)] block; a comment at its top names the src
file it is appended to) and notes.txt, written by an independent sub-agent.  Steps:
  1. scratch copy of /repo (under /var/tmp): the existing suite passes WITH the patch; the demo
     fails WITH the patch and passes WITHOUT it  (all three are re-run here, not taken on trust);
  2. `git -C /repo apply patch.diff`, run `./check <property>` (evidence/replays redirected so the
     committed evidence is not overwritten), `git -C /repo checkout -- .`;
  3. write /verif/seeded/<name>/{patch.diff, demo.rs, notes.txt, meta.json}.
"""
import sys, os, re, json, shutil, subprocess, tempfile

VERIF = os.path.dirname(os.path.dirname(os.path.abspath(__file__)))
REPO = "/repo"
TARGET = "/var/tmp/ms/target"


def sh(cmd, cwd=None, env=None, timeout=3600):
    p = subprocess.run(cmd, shell=True, cwd=cwd, env=env, capture_output=True, text=True, timeout=timeout)
    return p.returncode, p.stdout + p.stderr


def scratch():
    t = tempfile.mkdtemp(prefix="mila-verif-seed.", dir="/var/tmp")
    for d in ("src", "resources"):
        shutil.copytree(os.path.join(REPO, d), os.path.join(t, d))
    for f in ("Cargo.toml", "Cargo.lock"):
        shutil.copy(os.path.join(REPO, f), t)
    subprocess.run("git init -q . && git add -A && git -c user.email=a@b -c user.name=x commit -qm base", shell=True, cwd=t)
    return t


def demo_target(demo):
    m = re.search(r"(src/[\w/]+\.rs)", demo)
    return m.group(1) if m else None


def test_summary(out):
    ms = re.findall(r"test result: (\w+)\. (\d+) passed; (\d+) failed", out)
    return [(a, int(b), int(c)) for a, b, c in ms]


def main():
    pid, src, name = sys.argv[1], sys.argv[2], sys.argv[3]
    checks = [pid]
    if "--checks" in sys.argv:
        checks = sys.argv[sys.argv.index("--checks") + 1].split(",")
    patch = open(os.path.join(src, "patch.diff")).read()
    demo = open(os.path.join(src, "demo.rs")).read()
    notes = open(os.path.join(src, "notes.txt")).read() if os.path.exists(os.path.join(src, "notes.txt")) else ""
    target = demo_target(demo)
    env = dict(os.environ, CARGO_TARGET_DIR=TARGET, CARGO_NET_OFFLINE="true")
    meta = {"property": pid, "name": name, "demo_appended_to": target, "ran": []}

    t = scratch()
    try:
        # (a) suite passes with the patch
        rc, out = sh("git apply -", cwd=t) if False else (0, "")
        p = subprocess.run(["git", "apply", "--whitespace=nowarn", "-"], input=patch, text=True, cwd=t, capture_output=True)
        if p.returncode != 0:
            print("patch does not apply:", p.stderr); meta["error"] = "patch does not apply"; return finish(meta, name, patch, demo, notes)
        rc, out = sh("cargo test --offline 2>&1 | tail -40", cwd=t, env=env)
        s = test_summary(out)
        meta["suite_with_patch"] = s
        suite_ok = bool(s) and all(x[0] == "ok" for x in s) and sum(x[1] for x in s) >= 82
        meta["ran"].append("cargo test --offline (scratch copy + patch): %s" % s)
        # (b) demo fails with the patch
        open(os.path.join(t, target), "a").write("\n" + demo + "\n")
        rc, out = sh("cargo test --offline 2>&1 | tail -60", cwd=t, env=env)
        s2 = test_summary(out)
        demo_fails = any(x[2] > 0 for x in s2) or "panicked" in out or "error: test failed" in out
        meta["demo_with_patch"] = s2
        meta["ran"].append("cargo test --offline (scratch copy + patch + demo): %s" % s2)
        # (c) demo passes without the patch
        sh("git checkout -q -- . ", cwd=t)
        open(os.path.join(t, target), "a").write("\n" + demo + "\n")
        rc, out = sh("cargo test --offline 2>&1 | tail -40", cwd=t, env=env)
        s3 = test_summary(out)
        demo_passes = bool(s3) and all(x[0] == "ok" for x in s3)
        meta["demo_without_patch"] = s3
        meta["ran"].append("cargo test --offline (scratch copy + demo, no patch): %s" % s3)
        meta["confirmed"] = bool(suite_ok and demo_fails and demo_passes)
    finally:
        shutil.rmtree(t, ignore_errors=True)

    # run the checks against the patched tree.  Equivalent to `git -C /repo apply patch.diff; ./check ..;
    # git -C /repo checkout -- .`, but on a scratch copy selected with MILA_REPO so that /repo is never
    # touched while other checks are running (every tool reads the tree through assemble.REPO).
    outdir = tempfile.mkdtemp(prefix="mila-verif-seedout.", dir="/var/tmp")
    meta["checks"] = {}
    t2 = scratch()
    p = subprocess.run(["git", "apply", "--whitespace=nowarn", "-"], input=patch, text=True, capture_output=True, cwd=t2)
    try:
        if p.returncode != 0:
            meta["error"] = "patch does not apply: " + p.stderr
        else:
            for c in checks:
                rc, out = sh("./check %s --tier quick" % c, cwd=VERIF, env=dict(os.environ, MILA_OUT=outdir, MILA_REPO=t2))
                lines = [l for l in out.split("\n") if l.startswith(("VIOLATION", "  obligation", "UNDECIDED", "OK ", "KNOWN"))]
                meta["checks"][c] = {"exit": rc, "output": lines[:12]}
                meta["ran"].append("patched copy of /repo (MILA_REPO): ./check %s --tier quick -> exit %d" % (c, rc))
    finally:
        shutil.rmtree(t2, ignore_errors=True)
        shutil.rmtree(outdir, ignore_errors=True)
    meta["caught"] = any(v["exit"] == 1 for v in meta["checks"].values())
    finish(meta, name, patch, demo, notes)


def finish(meta, name, patch, demo, notes):
    d = os.path.join(VERIF, "seeded", name)
    os.makedirs(d, exist_ok=True)
    open(os.path.join(d, "patch.diff"), "w").write(patch)
    open(os.path.join(d, "demo.rs"), "w").write(demo)
    open(os.path.join(d, "notes.txt"), "w").write(notes)
    m = re.search(r"(?:needs|manifest)[^\n]*\n?[^\n]*", notes, re.I)
    meta["needs_to_manifest"] = meta.get("needs_to_manifest") or (m.group(0).strip()[:400] if m else "see notes.txt")
    json.dump(meta, open(os.path.join(d, "meta.json"), "w"), indent=1)
    print(json.dumps({k: meta.get(k) for k in ("name", "confirmed", "caught", "checks", "error")}, indent=1))


if __name__ == "__main__":
    main()
