#!/usr/bin/env python3
"""audit_unit -- run the mutants of one property against ONE deductive unit only (which clause of the
unit refutes which mutant).   tools/audit_unit.py C18 asset_flags"""
import sys, os, json, shutil, tempfile, subprocess
HERE = os.path.dirname(os.path.abspath(__file__)); VERIF = os.path.dirname(HERE)
sys.path.insert(0, HERE)
import audit
pid, unit = sys.argv[1], sys.argv[2]
only = sys.argv[3] if len(sys.argv) > 3 else None
def one(m):
    tmp = tempfile.mkdtemp(prefix="mila-verif-auditu.", dir="/var/tmp")
    try:
        shutil.copytree("/repo/src", os.path.join(tmp, "src"))
        for f in ("Cargo.toml", "Cargo.lock"):
            shutil.copy(os.path.join("/repo", f), tmp)
        audit.apply_mutant(tmp, m)
        code = ("import sys, json, os; sys.path.insert(0, %r); import verus_run; verus_run.GEN = %r; "
                "u = json.load(open(%r)); c = u[%r]; "
                "r = verus_run.run_unit(%r, c['properties'], rlimit=c.get('rlimit'), extra_args=c.get('extra_args', ())); "
                "print('STATUS', r.status, r.reason); [print('FAIL', f.name) for f in r.failures]") % (
                    HERE, os.path.join(tmp, "gen"), os.path.join(VERIF, "contracts", "units.json"), unit, unit)
        p = subprocess.run([sys.executable, "-c", code], capture_output=True, text=True, env=dict(os.environ, MILA_REPO=tmp), cwd=tmp)
        return m["name"], [l for l in p.stdout.split("\n") if l.startswith(("STATUS", "FAIL"))] or [p.stderr[-300:]]
    finally:
        shutil.rmtree(tmp, ignore_errors=True)
from concurrent.futures import ThreadPoolExecutor
ms = [m for m in audit.mutants_for(pid) if only in (None, m["name"])]
with ThreadPoolExecutor(max_workers=5) as ex:
    for name, lines in ex.map(one, ms):
        print("%-36s %s" % (name, " | ".join(l[:200] for l in lines[:4])))
