#!/usr/bin/env python3
"""audit -- seeded-mutant audit (DESIGN 3.6).  Each mutant in contracts/mutants/<pid>.json is a
textual edit of /repo's source that keeps it compiling and breaks the property; it is applied to
a scratch copy (never to /repo), the property's units are re-run against the copy, and the run
must come back with a failed obligation charged to that property.  Survivors are reported under
contract_strength in the evidence; they do not change the exit code.

  tools/audit.py C04            run all mutants of C04
  tools/audit.py C04 name       run one
"""
import sys, os, json, shutil, tempfile, subprocess
HERE = os.path.dirname(os.path.abspath(__file__))
sys.path.insert(0, HERE)
VERIF = os.path.dirname(HERE)


def mutants_for(pid):
    p = os.path.join(VERIF, "contracts", "mutants", pid + ".json")
    return json.load(open(p)) if os.path.exists(p) else []


def apply_mutant(root, m):
    path = os.path.join(root, m["file"])
    s = open(path).read()
    cnt = s.count(m["find"])
    nth = m.get("nth")
    if cnt == 0 or (cnt > 1 and nth is None):
        raise SystemExit("mutant %s: pattern occurs %d times in %s" % (m["name"], cnt, m["file"]))
    if nth is None:
        s = s.replace(m["find"], m["replace"])
    else:
        parts = s.split(m["find"])
        s = m["find"].join(parts[:nth + 1]) + m["replace"] + m["find"].join(parts[nth + 1:])
    open(path, "w").write(s)


def run_mutant(pid, m, repo="/repo"):
    tmp = tempfile.mkdtemp(prefix="mila-verif-audit.", dir="/var/tmp")
    try:
        shutil.copytree(os.path.join(repo, "src"), os.path.join(tmp, "src"))
        for f in ("Cargo.toml", "Cargo.lock"):
            shutil.copy(os.path.join(repo, f), tmp)
        apply_mutant(tmp, m)
        env = dict(os.environ, MILA_REPO=tmp, MILA_GEN=os.path.join(tmp, "gen"))
        code = ("import sys; sys.path.insert(0, %r); import check, verus_run, os; "
                "verus_run.GEN = os.environ['MILA_GEN']; "
                "u, p = check.registry(); "
                "import io, contextlib; "
                "rc = check.decide(%r, 'quick', u, p, quiet=True); sys.exit(rc)") % (HERE, pid)
        # evidence/replays of the audit run must not overwrite the real ones
        env["MILA_OUT"] = tmp
        p = subprocess.run([sys.executable, "-c", code], capture_output=True, text=True, env=env, cwd=tmp)
        out = p.stdout
        killed = p.returncode == 1 and "VIOLATION property=%s" % pid in out
        obl = [l.strip() for l in out.split("\n") if l.strip().startswith("obligation ")]
        return {"mutant": m["name"], "killed": killed, "exit": p.returncode,
                "obligations": obl[:5], "note": "" if killed else out[-300:]}
    finally:
        shutil.rmtree(tmp, ignore_errors=True)


def run(pid, units_cfg=None, props_cfg=None, only=None):
    from concurrent.futures import ThreadPoolExecutor
    ms = [m for m in mutants_for(pid) if only is None or m["name"] == only]
    if not ms:
        return []
    with ThreadPoolExecutor(max_workers=4) as ex:
        res = list(ex.map(lambda m: run_mutant(pid, m), ms))
    killed = sum(1 for r in res if r["killed"])
    print("mutant audit %s: %d/%d killed" % (pid, killed, len(res)))
    for r in res:
        print("  %-40s %s %s" % (r["mutant"], "KILLED " if r["killed"] else "SURVIVED(exit %s)" % r["exit"],
                                  "; ".join(r["obligations"])[:160] if r["killed"] else r["note"].replace("\n", " ")[:200]))
    evp = os.path.join(VERIF, "evidence", pid + ".json")
    if os.path.exists(evp) and only is None:
        ev = json.load(open(evp))
        ev["coverage"]["contract_strength"] = {"mutants": len(res), "killed": killed, "results": res}
        json.dump(ev, open(evp, "w"), indent=1)
    return res


if __name__ == "__main__":
    run(sys.argv[1], only=sys.argv[2] if len(sys.argv) > 2 else None)
