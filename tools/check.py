#!/usr/bin/env python3
"""check -- decide one property of /verif/properties.jsonl on /repo's current working tree.

  ./check <Cxx> [--tier quick|thorough]     exit 0 held / 1 VIOLATION / 2 UNDECIDED
  ./check --replay <replay.json>            re-run the unit(s) of a recorded violation
  ./check --all [--tier ..]                 every claimed property (convenience)
"""
import sys, os, json, time, re, argparse, subprocess, hashlib, shutil
from concurrent.futures import ThreadPoolExecutor

HERE = os.path.dirname(os.path.abspath(__file__))
sys.path.insert(0, HERE)
import assemble, verus_run

VERIF = assemble.VERIF
CONTRACTS = os.path.join(VERIF, "contracts")
OUT = os.environ.get("MILA_OUT", VERIF)      # the mutant audit redirects evidence/replays of its scratch runs


def load_json(p):
    return json.load(open(p))


def registry():
    return load_json(os.path.join(CONTRACTS, "units.json")), load_json(os.path.join(CONTRACTS, "properties.json"))


def known_findings():
    p = os.path.join(VERIF, "known_findings.json")
    if not os.path.exists(p):
        return []
    return load_json(p).get("findings", [])


def repo_state():
    repo = assemble.REPO
    try:
        head = subprocess.run(["git", "-C", repo, "rev-parse", "HEAD"], capture_output=True, text=True).stdout.strip()
        stat = subprocess.run(["git", "-C", repo, "diff", "--stat"], capture_output=True, text=True).stdout.strip()
    except Exception:
        head, stat = "?", "?"
    return head, stat


def run_one(uname, ucfg, tier):
    backend = ucfg.get("backend", "verus")
    if backend == "verus":
        rl = ucfg.get("rlimit")
        if tier == "thorough" and rl:
            rl = rl * 4
        return verus_run.run_unit(uname, ucfg.get("properties", []), rlimit=rl,
                                  extra_args=ucfg.get("extra_args", []),
                                  timeout=ucfg.get("timeout", 900))
    elif backend == "kani":
        import kani_run
        return kani_run.run_unit(uname, ucfg, tier)
    elif backend == "native":
        import native_run
        return native_run.run_unit(uname, ucfg, tier)
    raise SystemExit("unknown backend " + backend)


def sanitize(s):
    return re.sub(r"[^A-Za-z0-9_.-]+", "_", s)[:120]


def decide(pid, tier, units_cfg, props_cfg, quiet=False):
    t0 = time.time()
    pcfg = props_cfg[pid]
    unames = [u for u, c in units_cfg.items() if pid in c.get("properties", []) and
              (tier == "thorough" or not c.get("thorough_only"))]
    results = {}
    with ThreadPoolExecutor(max_workers=min(8, max(1, len(unames)))) as ex:
        futs = {u: ex.submit(run_one, u, units_cfg[u], tier) for u in unames}
        for u, f in futs.items():
            results[u] = f.result()

    kf = [k for k in known_findings() if k.get("property") == pid and k.get("status") == "finding"]
    violations, known_hits, elsewhere, undecided = [], [], [], []
    for u, r in results.items():
        if r.status == "undecided":
            undecided.append((u, r.reason))
        for f in r.failures:
            if f.is_canary:
                continue
            if pid not in f.props:
                elsewhere.append(f)
                continue
            hit = None
            for k in kf:
                if k.get("obligation") == f.name:
                    hit = k
            if hit:
                known_hits.append((f, hit))
            else:
                violations.append(f)

    head, stat = repo_state()
    replay_paths = []
    rdir = os.path.join(OUT, "replays", pid)
    for f in violations:
        os.makedirs(rdir, exist_ok=True)
        rp = os.path.join(rdir, sanitize(f.name) + ".json")
        rec = f.to_json()
        rec.update({"property": pid, "property_sentence": pcfg.get("clauses", {}).get(f.clause or "", ""),
                    "repo_head": head, "repo_diff_stat": stat, "tier": tier,
                    "failing_input": getattr(f, "failing_input", None),
                    "replay_test": getattr(f, "replay_test", None),
                    "confirmed_on_real_code": getattr(f, "confirmed", None),
                    "rerun": "./check --replay " + rp})
        json.dump(rec, open(rp, "w"), indent=1)
        replay_paths.append((f, rp))

    # ---------------------------------------------------------------- evidence
    fns, trusted, bounded, samples = [], [], [], []
    obligations = discharged = 0
    rewrites = {}
    canaries = 0
    cmds = []
    smt_ms = 0
    for u, r in results.items():
        cmds.append(r.cmd)
        smt_ms += getattr(r, "smt_ms", 0) or 0
        canaries += r.canaries_failed
        for k, v in (r.rewrites or {}).items():
            rewrites[k] = rewrites.get(k, 0) + v
        for t in r.trusted:
            if t not in trusted:
                trusted.append(t)
        known_fns = set(f.function for f, _ in known_hits)
        for fn in r.functions:
            if pid not in fn.get("props", []) and fn.get("props"):
                continue
            fn = dict(fn); fn["unit"] = u
            n = fn.get("named_clauses", 0) + fn.get("implicit_obligations", 0)
            if fn.get("label", "").startswith("bounded"):
                bounded.append(fn)
                continue
            fns.append(fn)
            if fn["function"] in known_fns:
                fn["note"] = "has a KNOWN-FINDING obligation; excluded from the obligation totals"
                continue
            obligations += n
            if fn.get("success"):
                discharged += n
    for fn in fns[:4]:
        samples.append({"function": fn["function"], "where": fn.get("lines"), "backend": fn.get("backend"),
                        "obligations": fn.get("named_clauses", 0) + fn.get("implicit_obligations", 0),
                        "smt_ms": fn.get("smt_ms")})
    for f in (violations + [k[0] for k in known_hits])[:4]:
        samples.append({"failed_obligation": f.name, "site": f.site})

    level = pcfg.get("level", "proof")
    cov = {
        "obligations": obligations, "discharged": discharged,
        "checker_cmd": " ; ".join(c for c in cmds if c),
        "trusted_base": trusted,
        "functions_under_contract": fns,
        "bounded_units": bounded,
        "not_decided_clauses": pcfg.get("not_decided_clauses", []),
        "rewrites_applied": rewrites,
        "canaries_failed_as_required": canaries,
        "units": {u: {"status": r.status, "reason": r.reason, "verified_fns": r.verified, "errors": r.errors,
                      "wall_s": round(r.wall_s, 2), "generated_file_sha": r.gen_sha,
                      "strip_and_compare_items": r.strip_compare,
                      "annotations_left_out_because_their_anchor_no_longer_exists": getattr(r, "skipped_anchors", {})} for u, r in results.items()},
        "samples": samples,
        "solver_time_ms": smt_ms,
        "machine_arithmetic": "Verus: exec integers are fixed-width and every arithmetic operation carries an "
                              "overflow obligation (so checked and wrapping builds agree); spec integers are "
                              "mathematical; usize = 64 bit. Kani: bit-precise.",
        "obligation_count_rule": "per verified function: overlay clauses (each ensures/requires/decreases = 1, each "
                                 "invariant = 2, each assert = 1) + implicit safety obligations counted syntactically "
                                 "in the verbatim body (arithmetic operators, casts, index expressions, call sites); "
                                 "discharged = the same count over functions Verus/Kani reported as verified",
        "known_findings": [{"obligation": f.name, "what": k.get("what")} for f, k in known_hits],
        "failed_obligations_charged_to_other_properties": [f.name for f in elsewhere],
        "explanation": pcfg.get("explanation", ""),
        "exhaustive": False,
    }
    ev = {"property_id": pid, "tier": tier, "seed": int(os.environ.get("VERIF_SEED", "0") or 0), "level": level,
          "coverage": cov, "assumptions": pcfg.get("assumptions", []) + trusted,
          "wall_s": round(time.time() - t0, 2), "violations": len(violations)}
    if undecided:
        cov["undecided"] = [{"unit": u, "reason": r} for u, r in undecided]
    os.makedirs(os.path.join(OUT, "evidence"), exist_ok=True)
    json.dump(ev, open(os.path.join(OUT, "evidence", pid + ".json"), "w"), indent=1)

    # ---------------------------------------------------------------- verdict
    for f, k in known_hits:
        print("KNOWN-FINDING: property=%s %s -- %s" % (pid, f.name, k.get("what", "")))
    if violations:
        for f, rp in replay_paths:
            tail = "" if getattr(f, "failing_input", None) else " no-failing-input-found"
            print("VIOLATION property=%s replay=%s%s" % (pid, rp, tail))
            print("  obligation %s at %s: %s" % (f.name, f.site, f.message))
        return 1
    if undecided:
        # A deductive unit that cannot follow the SHAPE of this tree (lost anchors, a construct or helper
        # outside its reach) proves nothing about it.  If a bounded companion of the same property ran to
        # completion on the real code without a failed clause, the check reports what was explored: exit 0,
        # with a DEGRADED line and the evidence saying that only the bounded stand-in decided this tree.
        structural = all(re.search(r"anchors? lost|extraction|verus rejected|injection|not verified but no failed obligation|kani build failed|must have a decreases clause|spurious counterexample", r or "")
                         for _, r in undecided)
        und_units = set(u for u, _ in undecided)
        def bounded_fns(r):
            return [fn for fn in r.functions if (fn.get("label") or "").startswith("bounded") and pid in fn.get("props", [])]
        companions = [u for u, r in results.items() if u not in und_units and r.status != "undecided"
                      and bounded_fns(r) and all(fn.get("success") for fn in bounded_fns(r))]
        if structural and companions:
            for u, reason in undecided:
                print("DEGRADED property=%s unit=%s could not follow this tree (%s); decided by the bounded companion(s) %s only" % (
                    pid, u, (reason or "")[:160], ",".join(companions)))
            cov["decided_by_bounded_companion_only"] = True
            json.dump(ev, open(os.path.join(OUT, "evidence", pid + ".json"), "w"), indent=1)
            print("OK property=%s tier=%s (bounded: deductive units undecided on this tree) units=%d" % (pid, tier, len(results)))
            return 0
        for u, reason in undecided:
            print("UNDECIDED property=%s unit=%s reason=%s" % (pid, u, reason))
        return 2
    if not quiet:
        print("OK property=%s tier=%s units=%d functions=%d obligations=%d discharged=%d wall=%.1fs" %
              (pid, tier, len(results), len(fns), obligations, discharged, time.time() - t0))
    if obligations == 0 and not bounded:
        print("UNDECIDED property=%s reason=no obligations generated (vacuous run)" % pid)
        return 2
    return 0


def replay(path):
    rec = load_json(path)
    pid = rec["property"]
    units_cfg, props_cfg = registry()
    print("replaying %s (obligation %s)" % (pid, rec["obligation"]))
    if rec.get("replay_test"):
        import kani_run
        return kani_run.run_replay_test(rec)
    r = run_one(rec["unit"], units_cfg[rec["unit"]], rec.get("tier", "quick"))
    names = [f.name for f in r.failures]
    if rec["obligation"] in names:
        print("VIOLATION property=%s replay=%s no-failing-input-found" % (pid, path))
        print("  obligation still fails on the current tree")
        return 1
    print("obligation %s is discharged on the current tree (unit status: %s %s)" % (rec["obligation"], r.status, r.reason))
    return 0 if r.status != "undecided" else 2


def main():
    ap = argparse.ArgumentParser()
    ap.add_argument("pid", nargs="?")
    ap.add_argument("--tier", default=os.environ.get("VERIF_TIER", "quick"))
    ap.add_argument("--replay")
    ap.add_argument("--all", action="store_true")
    a = ap.parse_args()
    if a.tier not in ("quick", "thorough"):
        a.tier = "quick"
    if a.replay:
        sys.exit(replay(a.replay))
    units_cfg, props_cfg = registry()
    if a.all:
        rc = 0
        for pid in sorted(props_cfg):
            if props_cfg[pid].get("claimed"):
                rc = max(rc, decide(pid, a.tier, units_cfg, props_cfg))
        sys.exit(rc)
    if a.pid not in props_cfg or not props_cfg[a.pid].get("claimed"):
        print("property %s is not claimed (see MANIFEST.json not_applicable)" % a.pid)
        sys.exit(2)
    rc = decide(a.pid, a.tier, units_cfg, props_cfg)
    if rc == 0 and a.tier == "thorough":
        import audit
        audit.run(a.pid, units_cfg, props_cfg)
    sys.exit(rc)


if __name__ == "__main__":
    main()
