"""kani_run -- run one Kani unit: copy /repo to a scratch directory, inject contract attributes
and `#[cfg(kani)]` harness modules (append / insert only; /repo itself is never touched), run
`cargo kani` once with all harnesses of the tier, and turn the per-harness results into the same
UnitResult / Failure records the Verus runner produces.

unit file  contracts/kani/<unit>.json :
  { "inject": [ {"file": "src/x.rs", "before_item": "impl Endian :: fn decode_u32", "text_file": "kani/<unit>/decode_u32.attrs"},
                {"file": "src/x.rs", "append_file": "kani/<unit>/harness.rs"} ],
    "harnesses": [ {"name": "check_decode_u32", "function": "endian_aware_io::Endian::decode_u32",
                    "item": "src/endian_aware_io.rs :: impl Endian :: fn decode_u32",
                    "label": "proved-complete" | "bounded(<bound>)", "props": ["C04"],
                    "clauses": 3, "tier": "quick"|"thorough", "replay": "kani/<unit>/replay_decode_u32.rs" } ],
    "kani_args": ["-Z", "function-contracts", "-Z", "stubbing"], "timeout": 1800, "jobs": 8 }
"""
import os, re, json, shutil, subprocess, tempfile, time, hashlib
import assemble, rsx
from verus_run import UnitResult, Failure

VERIF = assemble.VERIF
CACHE = os.path.join(VERIF, ".cache", "kani-deps")      # dependency artifacts only, never written after it is built


def ensure_deps_cache():
    """Build (once) a target directory holding the compiled *dependencies* of the crate for the Kani
    toolchain, with every artifact of the crate itself removed.  Each run copies it into its own
    scratch directory: runs never share a target directory (sharing one made `cargo kani` analyse the
    goto binary of the *previous* scratch copy -- stale results), and never see a pre-built `mila`."""
    import fcntl
    os.makedirs(os.path.dirname(CACHE), exist_ok=True)
    lock = open(os.path.join(VERIF, ".cache", "kani-deps.lock"), "w")
    fcntl.flock(lock, fcntl.LOCK_EX)
    try:
        if os.path.isdir(CACHE) and os.path.exists(os.path.join(CACHE, ".complete")):
            return
        shutil.rmtree(CACHE, ignore_errors=True)
        tmp = make_scratch("mila-verif-kanideps.")
        try:
            open(os.path.join(tmp, "src", "lib.rs"), "a").write(
                "\n#[cfg(kani)]\nmod __verif_warm { #[kani::proof] fn warm() { let x: u8 = kani::any(); assert!(x == x); } }\n")
            env = dict(os.environ, CARGO_TARGET_DIR=CACHE, CARGO_NET_OFFLINE="true")
            p = subprocess.run(["cargo", "kani", "--harness", "warm", "--output-format", "terse"], cwd=tmp, env=env,
                               capture_output=True, text=True, timeout=3600)
            if "VERIFICATION:- SUCCESSFUL" not in p.stdout:
                raise RuntimeError("could not build the Kani dependency cache: " + (p.stdout + p.stderr)[-600:])
            # remove everything that belongs to the crate under analysis
            for root, dirs, files in os.walk(CACHE, topdown=False):
                for n in files:
                    if "mila" in n:
                        os.remove(os.path.join(root, n))
                for n in dirs:
                    if "mila" in n:
                        shutil.rmtree(os.path.join(root, n), ignore_errors=True)
            open(os.path.join(CACHE, ".complete"), "w").write("ok\n")
        finally:
            shutil.rmtree(tmp, ignore_errors=True)
    finally:
        fcntl.flock(lock, fcntl.LOCK_UN)


def make_scratch(prefix="mila-verif-kani."):
    tmp = tempfile.mkdtemp(prefix=prefix, dir="/var/tmp")
    repo = assemble.REPO
    shutil.copytree(os.path.join(repo, "src"), os.path.join(tmp, "src"))
    for f in ("Cargo.toml", "Cargo.lock"):
        shutil.copy(os.path.join(repo, f), tmp)
    if os.path.isdir(os.path.join(repo, "resources")):
        shutil.copytree(os.path.join(repo, "resources"), os.path.join(tmp, "resources"))
    os.makedirs(os.path.join(tmp, ".cargo"))
    open(os.path.join(tmp, ".cargo", "config.toml"), "w").write("[net]\noffline = true\n")
    return tmp


def inject(tmp, cfg, log):
    for inj in cfg.get("inject", []):
        path = os.path.join(tmp, inj["file"])
        if "new_file" in inj:
            # a file that exists only in the scratch copy (e.g. the HashMap stand-in module)
            shutil.copy(os.path.join(VERIF, "contracts", inj["new_file"]), path)
            log.append("new file %s <- %s" % (inj["file"], inj["new_file"]))
            continue
        src = open(path).read()
        if "append_text" in inj:
            src = src.rstrip("\n") + "\n\n" + inj["append_text"]
            log.append("append %s <- %r" % (inj["file"], inj["append_text"]))
            open(path, "w").write(src)
            continue
        if "replace_line" in inj:
            # the one non-additive edit: a `use` line redirected to a stand-in type (logged; see DESIGN 8)
            if src.count(inj["replace_line"] + "\n") < 1:
                raise rsx.ExtractError("line to redirect not found in %s: %s" % (inj["file"], inj["replace_line"]))
            src = src.replace(inj["replace_line"] + "\n", inj["with"] + "\n", 1)
            log.append("use-line redirected in %s: %r -> %r" % (inj["file"], inj["replace_line"], inj["with"]))
            open(path, "w").write(src)
            continue
        if "append_file" in inj:
            text = open(os.path.join(VERIF, "contracts", inj["append_file"])).read()
            src = src.rstrip("\n") + "\n\n" + text
            log.append("append %s <- %s" % (inj["file"], inj["append_file"]))
        elif "before_item" in inj:
            item = rsx.find_item(src, inj["before_item"])
            text = open(os.path.join(VERIF, "contracts", inj["text_file"])).read().rstrip("\n") + "\n"
            ls = rsx.line_start(src, item.start)
            indent = src[ls:item.start]
            text = "".join(indent + l + "\n" for l in text.split("\n") if l.strip())
            src = src[:ls] + text + src[ls:]
            log.append("attrs before %s :: %s" % (inj["file"], inj["before_item"]))
        elif "crate_attr" in inj:
            src = inj["crate_attr"] + "\n" + src
            log.append("crate attr in %s" % inj["file"])
        open(path, "w").write(src)


def parse_output(out):
    """-> {harness_full_name: {"status": SUCCESSFUL|FAILED, "time": s, "failed_checks": [...], "checks": n, "block": str}}"""
    res, cur, blocks = {}, {}, {}
    thread = None
    lines = out.split("\n")
    i = 0
    seq_current = None
    while i < len(lines):
        l = lines[i]
        m = re.match(r"(?:Thread (\d+): )?Checking harness ([\w:]+)\.\.\.", l)
        if m:
            t = m.group(1) or "seq"
            cur[t] = m.group(2)
            seq_current = m.group(2)
            i += 1
            continue
        m = re.match(r"Thread (\d+): *$", l)
        if m or l.startswith("VERIFICATION RESULT:") or l.startswith("SUMMARY:"):
            t = m.group(1) if m else "seq"
            name = cur.get(t, seq_current)
            j = i
            block = []
            while j < len(lines) and not lines[j].startswith("Verification Time"):
                block.append(lines[j]); j += 1
                if j - i > 400:
                    break
            if j < len(lines):
                block.append(lines[j])
            text = "\n".join(block)
            st = re.search(r"VERIFICATION:- (\w+)", text)
            tm = re.search(r"Verification Time: ([\d.]+)s", text)
            nc = re.search(r"\*\* (\d+) of (\d+) failed", text)
            fc = re.findall(r"Failed Checks: (.*)\n(?: File: \"([^\"]+)\", line (\d+))?", text)
            if name and st:
                res[name] = {"status": st.group(1), "time": float(tm.group(1)) if tm else None,
                             "failed": int(nc.group(1)) if nc else None, "checks": int(nc.group(2)) if nc else None,
                             "failed_checks": [{"what": a, "file": b, "line": c} for a, b, c in fc],
                             "unsat_cover": len(re.findall(r"UNSATISFIABLE", text)),
                             "block": text[-3000:]}
            i = j + 1
            continue
        i += 1
    return res


def run_unit(uname, ucfg, tier, keep=False, extra_kani_args=()):
    res = UnitResult(uname)
    t0 = time.time()
    cfg = json.load(open(os.path.join(VERIF, "contracts", "kani", uname + ".json")))
    hs = [h for h in cfg["harnesses"] if tier == "thorough" or h.get("tier", "quick") == "quick"]
    tmp = make_scratch()
    log = []
    try:
        try:
            inject(tmp, cfg, log)
        except (rsx.ExtractError, FileNotFoundError) as e:
            res.status, res.reason = "undecided", "injection: %s" % e
            return res
        ensure_deps_cache()
        private_target = os.path.join(tmp, "target")
        shutil.copytree(CACHE, private_target, symlinks=True)
        cmd = ["cargo", "kani"] + cfg.get("kani_args", ["-Z", "function-contracts", "-Z", "stubbing"])
        for h in hs:
            cmd += ["--harness", h["name"]]
        cmd += ["-j", str(cfg.get("jobs", 8)), "--output-format", "terse"] + list(extra_kani_args)
        env = dict(os.environ, CARGO_TARGET_DIR=private_target, CARGO_NET_OFFLINE="true")
        res.cmd = " ".join(cmd) + "   (in a scratch copy of /repo with the harnesses of contracts/kani/%s injected)" % uname
        try:
            # one Kani run at a time on this machine (memory: each run starts up to `jobs` CBMC
            # processes); every run has its own target directory, see ensure_deps_cache()
            import fcntl
            lock = open(os.path.join(VERIF, ".cache", "kani.lock"), "w")
            fcntl.flock(lock, fcntl.LOCK_EX)
            try:
                p = subprocess.run(cmd, cwd=tmp, env=env, capture_output=True, text=True, timeout=cfg.get("timeout", 1800))
            finally:
                fcntl.flock(lock, fcntl.LOCK_UN)
            out = p.stdout + "\n" + p.stderr
        except subprocess.TimeoutExpired as e:
            res.status, res.reason = "undecided", "cargo kani timeout after %ss" % cfg.get("timeout", 1800)
            return res
        parsed = parse_output(out)
        res.rewrites = {"kani_injections": len(log)}
        res.trusted = ["Kani/CBMC/kissat toolchain", "injected (append/insert-only) into a scratch copy: " + "; ".join(log)]
        for s in re.findall(r"- Stub: ([^\n]+)", out):
            res.trusted.append("kani::stub " + s.strip())
        if "error: could not compile" in out or ("error[" in out and not parsed):
            m = re.search(r"(error(\[\w+\])?: [^\n]+\n[^\n]*\n[^\n]*)", out)
            res.status, res.reason = "undecided", "kani build failed: %s" % (m.group(1) if m else out[-400:])
            return res
        srcs = {}
        for h in hs:
            full = None
            for k in parsed:
                if k.endswith("::" + h["name"]):
                    full = k
            info = parsed.get(full) if full else None
            item_key = h.get("item")
            lines, sha = "", ""
            if item_key:
                relfile, ipath = item_key.split(" :: ", 1)
                try:
                    src, toks = assemble._load(relfile)
                    it = rsx.find_item(src, ipath, toks)
                    a, b = it.lines()
                    lines, sha = "%s:%d-%d" % (relfile, a, b), hashlib.sha256(it.text.encode()).hexdigest()[:16]
                except rsx.ExtractError:
                    pass
            ok = bool(info and info["status"] == "SUCCESSFUL")
            res.functions.append({
                "function": h.get("function", h["name"]), "item": item_key, "lines": lines, "sha256": sha,
                "backend": "kani/cbmc", "label": h.get("label", "proved-complete"), "harness": h["name"],
                "success": ok if info else None, "smt_ms": int(info["time"] * 1000) if info and info["time"] else None,
                "rlimit": None, "named_clauses": h.get("clauses", 1),
                "implicit_obligations": (info["checks"] if info and info["checks"] else 0),
                "props": h.get("props", ucfg.get("properties", [])), "bound": h.get("bound"),
            })
            if info is None:
                res.status, res.reason = "undecided", "no result for harness %s (kani output tail: %s)" % (h["name"], out[-300:].replace("\n", " "))
                continue
            if info.get("unsat_cover"):
                res.status, res.reason = "undecided", "VACUITY: unsatisfied cover in harness %s" % h["name"]
            if info["status"] != "SUCCESSFUL":
                if not info["failed_checks"]:
                    # no refuted check in the output: CBMC was killed (harness timeout / memory) or
                    # gave up -- that is UNDECIDED, never a violation
                    res.status, res.reason = "undecided", "harness %s ended without a verdict (timeout or out of memory): %s" % (
                        h["name"], info["block"][-200:].replace("\n", " "))
                    continue
                fcs = info["failed_checks"]
                if all(re.search(r"unwinding assertion|unsupported|not currently supported", fc["what"]) for fc in fcs):
                    res.status, res.reason = "undecided", "harness %s: %s" % (h["name"], fcs[0]["what"])
                    continue
                for fc in fcs[:6]:
                    f = Failure()
                    f.kind, f.unit = "kani", uname
                    f.function = h.get("function", h["name"])
                    f.clause = "%s:%s" % (h["name"], re.sub(r"\s+", " ", fc["what"])[:90])
                    f.props = list(h.get("props", ucfg.get("properties", [])))
                    f.site = "%s:%s" % (fc["file"], fc["line"]) if fc["file"] else h["name"]
                    f.message = fc["what"]
                    f.rendered = info["block"]
                    f.harness = h
                    res.failures.append(f)
        if res.failures and res.status == "ok":
            res.status = "failed"
        if res.failures:
            # counterexample -> concrete input -> replay on the real code
            try:
                attach_replay(uname, cfg, res, tmp, env)
            except Exception as e:       # replay is best effort; the violation stands without it
                for f in res.failures:
                    f.replay_error = str(e)
                for f in res.failures:
                    f.replay_error = str(e)
            # A counterexample that Kani itself turned into a concrete test, and that test PASSES when the
            # real code is compiled natively and run on it, is a trace of the model checker that the real
            # code does not follow (seen with CBMC 6.11: memcpy from a `match`-selected string literal).
            # Only refutations that replay on the real code are believed: such a harness is UNDECIDED.
            spurious = [f for f in res.failures if getattr(f, "confirmed", None) is False
                        and (getattr(f, "replay_test", None) or {}).get("native_result") == "ok"]
            if spurious:
                res.failures = [f for f in res.failures if f not in spurious]
                res.spurious = [{"harness": f.harness["name"], "clause": f.clause, "input": getattr(f, "failing_input", None)} for f in spurious]
                if not res.failures:
                    res.status = "undecided"
                    res.reason = "spurious counterexample: Kani's counterexample for %s passes when replayed natively on the real code (%s)" % (
                        ", ".join(sorted(set(f.harness["name"] for f in spurious))), spurious[0].clause)
        res.verified = sum(1 for f in res.functions if f["success"])
        res.errors = len(res.failures)
        return res
    finally:
        res.wall_s = time.time() - t0
        if not keep:
            shutil.rmtree(tmp, ignore_errors=True)


def attach_replay(uname, cfg, res, tmp, env):
    """For each failed harness: concrete playback.  Kani turns its counterexample into a unit test
    (the concrete bytes of every kani::any() in the harness); `cargo kani playback` compiles the
    scratch copy natively and runs that test, i.e. the real function is executed on the failing
    input and the clause is re-checked as an ordinary assertion.  Recorded: the input, the test
    source, and whether the native run fails (confirmed on the real code)."""
    base = ["cargo", "kani"] + cfg.get("kani_args", ["-Z", "function-contracts", "-Z", "stubbing"])
    hnames = sorted(set(f.harness["name"] for f in res.failures))
    cmd = list(base)
    for n in hnames:
        cmd += ["--harness", n]
    p = subprocess.run(cmd + ["-Z", "concrete-playback", "--concrete-playback=inplace", "--output-format", "terse"],
                       cwd=tmp, env=env, capture_output=True, text=True, timeout=cfg.get("timeout", 1800))
    names = re.findall(r"(kani_concrete_playback_\w+)", p.stdout)
    tests = {}     # harness name -> [(test name, source, values)]
    for fn in os.listdir(os.path.join(tmp, "src")):
        src = open(os.path.join(tmp, "src", fn)).read()
        for m in re.finditer(r"#\[test\]\s*fn (kani_concrete_playback_(\w+?)_\d+)\(\) \{.*?\n\s*\}", src, re.S):
            tests.setdefault(m.group(2), []).append((m.group(1), m.group(0), re.findall(r"// ([^\n]*)\n\s*vec!\[([^\]]*)\]", m.group(0))))
    results = {}
    playback_out = ""
    if tests:
        q = subprocess.run(["cargo", "kani", "playback", "-Z", "concrete-playback", "--", "kani_concrete_playback"],
                           cwd=tmp, env=env, capture_output=True, text=True, timeout=1800)
        playback_out = q.stdout
        for m in re.finditer(r"test \S*?(kani_concrete_playback_\w+) \.\.\. (\w+)", q.stdout):
            results[m.group(1)] = m.group(2)
    for g in res.failures:
        ts = tests.get(g.harness["name"], [])
        if not ts:
            continue
        # prefer a generated test that fails natively
        ts.sort(key=lambda t: 0 if results.get(t[0]) == "FAILED" else 1)
        tname, tsrc, vals = ts[0]
        g.failing_input = {"kani_any_values_in_harness_order": [{"value": a.strip(), "bytes": b.strip()} for a, b in vals]}
        g.replay_test = {"test": tname, "source": tsrc,
                         "command": "cargo kani playback -Z concrete-playback -- %s   (scratch copy of /repo + contracts/kani/%s)" % (tname, uname),
                         "native_result": results.get(tname)}
        g.confirmed = (results.get(tname) == "FAILED") if tname in results else None


def run_replay_test(rec):
    print("replay of Kani counterexamples re-runs the harness: ./check %s" % rec.get("property"))
    return 2
