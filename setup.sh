#!/bin/sh
# Run once after a fresh restore, offline.  Verus needs no build; the Kani target directory is
# warmed by the first Kani unit (see tools/kani_run.py).  Nothing is fetched.
set -e
cd "$(dirname "$0")"
mkdir -p gen evidence replays .cache
command -v verus >/dev/null || { echo "verus not on PATH"; exit 1; }
python3 -c "import sys; sys.path.insert(0,'tools'); import assemble, verus_run, check" 
echo setup ok
