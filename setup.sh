#!/bin/sh
# Run once after a fresh restore, offline.  Verus needs no build; the compiled dependencies of
# the crate for the Kani toolchain are built once into .cache/kani-deps (tools/kani_run.py).
# Nothing is fetched.
set -e
cd "$(dirname "$0")"
mkdir -p gen evidence replays .cache
command -v verus >/dev/null || { echo "verus not on PATH"; exit 1; }
python3 -c "import sys; sys.path.insert(0,'tools'); import assemble, verus_run, check" 
python3 -c "import sys; sys.path.insert(0,'tools'); import kani_run; kani_run.ensure_deps_cache()"
python3 -c "import sys; sys.path.insert(0,'tools'); import native_run; native_run.ensure_deps_cache(); native_run.ensure_deps_cache(True)"
echo setup ok
